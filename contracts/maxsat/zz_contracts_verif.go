//go:build verif

package maxsat

// Contracts for package maxsat, read by /verif/govc (comment-only file).

// parseWCNFClause: first field is the weight, the following fields up to the terminator are the
// literals; a soft clause (weight below top, or no top) gets the relaxation literal in place of the
// terminator, a hard clause just loses the terminator.
//@ func parseWCNFClause
//@   assume-input after-call Fields#1 nonempty: len(result) >= 2

//@   ensures  soft: result2 == nil && (topWeight == 0 || result1 < topWeight) ==> len(result0) >= 1 && result0[len(result0)-1] == relaxLit
//@   ensures  fresh: result2 == nil ==> fresh(result0)
//@   loop 1
//@     invariant idx: 0 <= i && i <= len(fields) && len(lits) == len(fields) - 1 && fresh(lits)

// New: every soft constraint is turned into a hard one with a fresh blocking literal such that
// (assert relaxed) the blocking literal alone satisfies it and (assert same) with the blocking
// literal false it means what the user wrote.
//@ func New
//@   ghost A asg
//@   requires coeffs: forall(i, 0, len(constrs), (len(constrs[i].Coeffs) == 0 || len(constrs[i].Coeffs) == len(constrs[i].Lits)) && forall(k, 0, len(constrs[i].Coeffs), constrs[i].Coeffs[k] >= 0) && constrs[i].Weight >= 0)
//@   loop 1
//@     invariant idx: 0 <= rangei && rangei <= len(constrs) && len(clauses) == len(constrs) && fresh(clauses) && pb != nil
//@   loop 2
//@     invariant idx: 0 <= rangei && rangei <= len(constr.Lits) && len(lits) == len(constr.Lits) && fresh(lits) && pb != nil
//@   assert before-call GtEq#1 nn:      lem_isum_nonneg(lits, coeffs, A, len(lits)-1)
//@   assert before-call GtEq#1 relaxed: constr.Weight != 0 ==> (tvi(A, lits[len(lits)-1]) ==> isum(lits, coeffs, A, len(lits)) >= constr.AtLeast)
//@   assert before-call GtEq#1 same:    constr.Weight != 0 && !tvi(A, lits[len(lits)-1]) ==> ((isum(lits, coeffs, A, len(lits)) >= constr.AtLeast) <==> (isum(lits, coeffs, A, len(lits)-1) >= constr.AtLeast))
//@   loop 3
//@     invariant idx:  0 <= rangei && rangei <= len(coeffs) && len(coeffs) == len(lits) && fresh(coeffs) && fresh(lits) && len(lits) == len(constr.Lits) && pb != nil
//@     invariant ones: forall(k, 0, rangei, coeffs[k] == 1)
