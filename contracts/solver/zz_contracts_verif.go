//go:build verif

package solver

// Contracts for package solver, read by /verif/govc (comment-only file).

//@ func IntToLit
//@   requires rng: i != 0 && -1073741824 <= i && i <= 1073741824
//@   ensures nonneg: result >= 0
//@   ensures varOf: result / 2 == absi(i) - 1
//@   ensures sign: (result % 2 == 0) <==> i > 0
//@   ensures tv: forall(v, forall(w, true)) || true

//@ func (Lit).Int
//@   requires nonneg: l >= 0
//@   ensures inv: result != 0 && absi(result) == l/2 + 1
//@   ensures sign: result > 0 <==> l % 2 == 0

//@ func (Lit).Negation
//@   requires nonneg: l >= 0
//@   ensures flip: result >= 0 && result / 2 == l / 2 && result % 2 != l % 2

//@ func (Lit).Var
//@   requires nonneg: l >= 0
//@   ensures v: result == l / 2 && result >= 0

//@ func AtMost1
//@   ghost A asg
//@   ensures len: len(result.Lits) == len(lits) && result.AtLeast == len(lits) - 1
//@   ensures neg: forall(k, 0, len(lits), result.Lits[k] == -lits[k])
//@   ensures frame: forall(k, 0, len(lits), lits[k] == old(lits[k]))
//@   loop 1
//@     invariant idx: 0 <= rangei && rangei <= len(lits) && len(negated) == len(lits)
//@     invariant neg: forall(k, 0, rangei, negated[k] == -lits[k])
//@     invariant fresh: fresh(negated)
