//go:build verif

package solver

// Contracts for package solver, read by /verif/govc (comment-only file).

//@ func IntToLit
//@   requires rng: i != 0 && -1073741824 <= i && i <= 1073741824
//@   ensures nonneg: result >= 0
//@   ensures varOf: result / 2 == absi(i) - 1
//@   ensures sign: (result % 2 == 0) <==> i > 0

//@ func (Lit).Int
//@   requires nonneg: l >= 0
//@   ensures inv: result != 0 && absi(result) == l/2 + 1
//@   ensures sign: result > 0 <==> l % 2 == 0

//@ func (Lit).Negation
//@   requires nonneg: l >= 0
//@   ensures flip: result >= 0 && result / 2 == l / 2 && result % 2 != l % 2

//@ func (Lit).Var
//@   requires nonneg: l >= 0
//@   ensures v: result == l / 2 && result >= 0

//@ func AtMost1
//@   ghost A asg
//@   ensures len: len(result.Lits) == len(lits) && result.AtLeast == len(lits) - 1
//@   ensures neg: forall(k, 0, len(lits), result.Lits[k] == -lits[k])
//@   ensures frame: forall(k, 0, len(lits), lits[k] == old(lits[k]))
//@   loop 1
//@     invariant idx: 0 <= rangei && rangei <= len(lits) && len(negated) == len(lits)
//@     invariant neg: forall(k, 0, rangei, negated[k] == -lits[k])
//@     invariant fresh: fresh(negated)

// ---------------------------------------------------------------- cutting planes rules (C14)

//@ define pbval(pb *pbSet, A asg) bool = vsum(pb.weights, A, len(pb.weights)) >= pb.card

//@ func (*pbSet).clash
//@   ghost A asg
//@   requires nn:   pb1 != nil && pb2 != nil && pb1 != pb2
//@   requires sep:  arr(pb1.weights) != arr(pb2.weights)
//@   requires lens: len(pb1.weights) == len(pb2.weights)
//@   modifies pb1.card, pb1.weights[*]
//@   ensures  sound: old(pbval(pb1, A)) && old(pbval(pb2, A)) ==> pbval(pb1, A)
//@   ensures  frame2: pb2.card == old(pb2.card) && forall(k, 0, len(pb2.weights), pb2.weights[k] == old(pb2.weights[k]))
//@   loop 1
//@     invariant idx:   0 <= rangei && rangei <= len(pb1.weights)
//@     invariant rest:  forall(k, rangei, len(pb1.weights), pb1.weights[k] == old(pb1.weights[k]))
//@     invariant sum:   vsum(pb1.weights, A, rangei) - pb1.card == old(vsum(pb1.weights, A, rangei)) + vsum(pb2.weights, A, rangei) - old(pb1.card) - pb2.card

//@ func (*pbSet).divideBy
//@   ghost A asg
//@   requires nn:    pb != nil
//@   requires coeff: coeff >= 1
//@   requires card:  pb.card >= 0
//@   modifies pb.card, pb.weights[*]
//@   ensures  sound: old(pbval(pb, A)) ==> pbval(pb, A)
//@   ensures  card:  pb.card >= 0
//@   ensures  shape: len(pb.weights) == old(len(pb.weights))
//@   ensures  one:   forall(k, 0, len(pb.weights), absi(old(pb.weights[k])) == coeff ==> absi(pb.weights[k]) == 1)
//@   loop 1
//@     invariant idx:   0 <= rangei && rangei <= len(pb.weights)
//@     invariant rest:  forall(k, rangei, len(pb.weights), pb.weights[k] == old(pb.weights[k]))
//@     invariant one:   forall(k, 0, rangei, absi(old(pb.weights[k])) == coeff ==> absi(pb.weights[k]) == 1)
//@     invariant sum:   coeff * vsum(pb.weights, A, rangei) >= old(vsum(pb.weights, A, rangei))
//@     invariant card:  pb.card == old(pb.card)

//@ func (*pbSet).roundToOne
//@   ghost A asg
//@   requires nn:     pb != nil && s != nil
//@   requires idx:    0 <= locked && locked < len(pb.weights) && len(s.model) >= len(pb.weights)
//@   requires sep:    arr(s.model) != arr(pb.weights)
//@   requires locked: pb.weights[locked] != 0
//@   requires cardOK: pb.card - rsum(pb.weights, s.model, absi(pb.weights[locked]), len(pb.weights)) >= 0
//@   modifies pb.card, pb.weights[*]
//@   ensures  sound:  old(pbval(pb, A)) ==> pbval(pb, A)
//@   ensures  one:    absi(pb.weights[locked]) == 1
//@   loop 1
//@     invariant idx:   0 <= rangei && rangei <= len(pb.weights) && wi == absi(old(pb.weights[locked])) && wi > 1
//@     invariant rest:  forall(k, rangei, len(pb.weights), pb.weights[k] == old(pb.weights[k]))
//@     invariant lock:  absi(pb.weights[locked]) == wi
//@     invariant card:  pb.card == old(pb.card) - old(rsum(pb.weights, s.model, wi, rangei))
//@     invariant sum:   vsum(pb.weights, A, rangei) - pb.card >= old(vsum(pb.weights, A, rangei)) - old(pb.card)

// ---------------------------------------------------------------- constraint constructors (C02)

//@ define cholds(c PBConstr, A asg) bool = isum(c.Lits, c.Weights, A, len(c.Lits)) >= c.AtLeast
//@ define nzLits(l []int) bool = forall(k, 0, len(l), l[k] != 0)
//@ define posW(w []int) bool = forall(k, 0, len(w), w[k] > 0)
//@ define litRange(l []int) bool = forall(k, 0, len(l), -1073741824 <= l[k] && l[k] <= 1073741824)

// GtEq: the returned constraint is equivalent to "sum of weights of true literals >= n" as the
// caller wrote it (weights of either sign, zero weights), has positive weights and non-zero literals.
//@ func GtEq
//@   ghost A asg
//@   requires lens: weights == nil || len(lits) == len(weights)
//@   requires nz:   nzLits(lits)
//@   requires sep:  weights != nil ==> arr(lits) != arr(weights)
//@   modifies lits[*], weights[*]
//@   ensures  shape: (old(weights == nil) ==> result.Weights == nil) && (old(weights != nil) ==> len(result.Lits) == len(result.Weights) && result.Weights != nil)
//@   ensures  pos:   forall(k, 0, len(result.Weights), result.Weights[k] > 0)
//@   ensures  nz:    nzLits(result.Lits)
//@   ensures  rng:   old(litRange(lits)) ==> litRange(result.Lits)
//@   ensures  same:  sameArray(result.Lits, lits) && sameArray(result.Weights, weights)
//@   ensures  equiv: (old(isum(lits, weights, A, len(lits))) >= n) <==> cholds(result, A)
//@   loop 1
//@     invariant rng:   old(litRange(lits)) ==> litRange(lits)
//@     invariant nilcase: old(weights == nil) ==> weights == nil && lits == old(lits) && n == old(n) && forall(k, 0, len(lits), lits[k] == old(lits[k]))
//@     invariant idx:   0 <= i && i <= len(weights) && (old(weights != nil) ==> len(lits) == len(weights) && weights != nil)
//@     invariant same:  sameArray(lits, old(lits)) && sameArray(weights, old(weights)) && cap(lits) == old(cap(lits)) && cap(weights) == old(cap(weights))
//@     invariant pos:   forall(k, 0, i, weights[k] > 0)
//@     invariant nz:    nzLits(lits)
//@     invariant eq:    isum(lits, weights, A, len(lits)) - n == old(isum(lits, weights, A, len(lits))) - old(n)
//@   assert body-end 1 prefix: forall(k, 0, prev(i), weights[k] == prev(weights[k]) && lits[k] == prev(lits[k]))
//@   assert body-end 1 del: prev(weights[i]) == 0 ==> lem_isum_delete(lits, weights, prev(lits), prev(weights), A, prev(len(weights)), prev(i))

// LtEq: "sum of weights of true literals <= n" as the caller wrote it.
//@ func LtEq
//@   ghost A asg
//@   requires lens: weights != nil && len(lits) == len(weights)
//@   requires nz:   nzLits(lits)
//@   requires sep:  arr(lits) != arr(weights)
//@   modifies lits[*], weights[*]
//@   ensures  shape: len(result.Lits) == len(result.Weights) && result.Weights != nil
//@   ensures  pos:   forall(k, 0, len(result.Weights), result.Weights[k] > 0)
//@   ensures  nz:    nzLits(result.Lits)
//@   ensures  rng:   old(litRange(lits)) ==> litRange(result.Lits)
//@   ensures  same:  sameArray(result.Lits, lits) && sameArray(result.Weights, weights)
//@   ensures  equiv: (old(isum(lits, weights, A, len(lits))) <= n) <==> cholds(result, A)
//@   loop 1
//@     invariant idx:  0 <= rangei && rangei <= len(lits)
//@     invariant neg:  forall(k, 0, rangei, lits[k] == -old(lits[k]))
//@     invariant rest: forall(k, rangei, len(lits), lits[k] == old(lits[k]))
//@     invariant w:    forall(k, 0, len(weights), weights[k] == old(weights[k]))
//@     invariant sum:  sum == wsum(weights, rangei)
//@   assert before-call GtEq#1 negsum: lem_isum_neg(lits, old(lits), weights, A, len(lits))

// AtMost: at most n of the literals are true (unit weights).
//@ func AtMost
//@   ghost A asg
//@   requires nz:   nzLits(lits)
//@   ensures  w:     result.Weights == nil && len(result.Lits) == len(lits)
//@   ensures  nz:    nzLits(result.Lits)
//@   ensures  equiv: (isum(lits, nil, A, len(lits)) <= n) <==> cholds(result, A)
//@   ensures  frame: forall(k, 0, len(lits), lits[k] == old(lits[k]))
//@   loop 1
//@     invariant idx:  0 <= rangei && rangei <= len(lits) && len(lits2) == len(lits) && fresh(lits2)
//@     invariant neg:  forall(k, 0, rangei, lits2[k] == -lits[k])
//@   assert exit negsum: lem_isum_neg(result.Lits, lits, nil, A, len(lits))

//@ func AtLeast
//@   ghost A asg
//@   ensures  id: result.Lits == lits && result.Weights == nil && result.AtLeast == n
//@   ensures  equiv: (isum(lits, nil, A, len(lits)) >= n) <==> cholds(result, A)

//@ func PropClause
//@   ghost A asg
//@   ensures  id: result.Lits == lits && result.Weights == nil && result.AtLeast == 1
//@   ensures  equiv: (isum(lits, nil, A, len(lits)) >= 1) <==> cholds(result, A)

// ---------------------------------------------------------------- at-most-one detection (C15)

//@ define inSet(t []int, j int) bool = exists(m, 0, len(t), t[m] == j)

// removeBinaries: exactly the clauses whose index is listed disappear; every other clause is
// kept (so nothing but the subsumed binaries can be lost), and nothing is invented.
//@ func (*Problem).removeBinaries
//@   requires nn:    pb != nil
//@   requires range: forall(m, 0, len(toRemove), 0 <= toRemove[m] && toRemove[m] < len(pb.Clauses))
//@   modifies pb.Clauses
//@   ensures  kept:   forall(j, 0, old(len(pb.Clauses)), !inSet(toRemove, j) ==> exists(k, 0, len(pb.Clauses), pb.Clauses[k] == old(pb.Clauses[j])))
//@   ensures  subset: forall(k, 0, len(pb.Clauses), exists(j, 0, old(len(pb.Clauses)), pb.Clauses[k] == old(pb.Clauses[j])))
//@   ensures  gone:   forall(k, 0, len(pb.Clauses), exists(j, 0, old(len(pb.Clauses)), pb.Clauses[k] == old(pb.Clauses[j]) && !inSet(toRemove, j)))
//@   loop 1
//@     invariant idx:  0 <= rangei && rangei <= len(toRemove) && len(remove) == len(pb.Clauses) && fresh(remove)
//@     invariant mark: forall(j, 0, len(remove), remove[j] <==> exists(m, 0, rangei, toRemove[m] == j))
//@   loop 2
//@     invariant idx:  0 <= rangei && rangei <= len(pb.Clauses) && len(remove) == len(pb.Clauses) && fresh(newClauses) && pb.Clauses == old(pb.Clauses)
//@     invariant mark: forall(j, 0, len(remove), remove[j] <==> inSet(toRemove, j))
//@     invariant kept:   forall(j, 0, rangei, !inSet(toRemove, j) ==> exists(k, 0, len(newClauses), newClauses[k] == pb.Clauses[j]))
//@     invariant gone:   forall(k, 0, len(newClauses), exists(j, 0, rangei, newClauses[k] == pb.Clauses[j] && !inSet(toRemove, j)))
//@     invariant cap:    len(newClauses) <= rangei && cap(newClauses) == len(pb.Clauses)
//@   assert body-end 2 last: !prev(remove[rangei]) ==> len(newClauses) == prev(len(newClauses)) + 1 && newClauses[len(newClauses)-1] == pb.Clauses[prev(rangei)]

// ---------------------------------------------------------------- solver representation (C09)

//@ define WFlen(s *Solver) bool = s.nbVars >= 0 && len(s.model) == s.nbVars && len(s.activity) == s.nbVars && len(s.polarity) == s.nbVars && len(s.reason) == s.nbVars && len(s.assumptions) == s.nbVars && len(s.trailBuf) == s.nbVars && len(s.pbSetBuf) == s.nbVars && len(s.pbSetBuf2) == s.nbVars && len(s.wl.wlistBin) == 2*s.nbVars && len(s.wl.wlist) == 2*s.nbVars && len(s.wl.wlistPb) == 2*s.nbVars && len(s.wl.wlistCardAMO) == 2*s.nbVars

// the per-variable tables of one solver never share a backing array
//@ define sepB(a []bool, b []bool) bool = arr(a) != arr(b) || cap(a) == 0 || cap(b) == 0
//@ define sepI(a []int, b []int) bool = arr(a) != arr(b) || cap(a) == 0 || cap(b) == 0
//@ define WFsep(s *Solver) bool = sepB(s.polarity, s.assumptions) && sepI(s.trailBuf, s.pbSetBuf) && sepI(s.trailBuf, s.pbSetBuf2) && sepI(s.pbSetBuf, s.pbSetBuf2) && (arr(s.model) != arr(s.lastModel) || cap(s.model) == 0 || cap(s.lastModel) == 0)

//@ define WFsepWl(s *Solver) bool = (arr(s.wl.wlistBin) != arr(s.wl.wlist) || cap(s.wl.wlistBin) == 0 || cap(s.wl.wlist) == 0) && (arr(s.wl.wlistPb) != arr(s.wl.wlistCardAMO) || cap(s.wl.wlistPb) == 0 || cap(s.wl.wlistCardAMO) == 0)

// insert (trusted: the heap order is not specified): n is in the queue afterwards, whatever was in stays in
//@ func (*queue).insert
//@   trusted
//@   requires nn: n >= 0
//@   modifies q.content, q.indices, q.content[*], q.indices[*]
//@   ensures  in:   n < len(q.indices) && q.indices[n] >= 0 && len(q.indices) >= old(len(q.indices))
//@   ensures  kept: forall(k, 0, old(len(q.indices)), old(q.indices[k]) >= 0 ==> q.indices[k] >= 0)
//@   ensures  own:  grown(q.content) && grown(q.indices)

//@ func newQueue
//@   trusted
//@   ensures act: result.activity == activity && fresh(result.content) && fresh(result.indices)
//@   ensures all: len(result.indices) >= len(activity) && forall(v, 0, len(activity), result.indices[v] >= 0)

//@ func (*Solver).addVarWatcherList
//@   requires wf: s != nil && s.nbVars >= 0 && len(s.wl.wlistBin) == 2*s.nbVars && len(s.wl.wlist) == 2*s.nbVars && len(s.wl.wlistPb) == 2*s.nbVars && len(s.wl.wlistCardAMO) == 2*s.nbVars
//@   requires v:  v >= 0 && v < 1073741823
//@   requires sep: WFsepWl(s)
//@   ensures  sep: WFsepWl(s)
//@   modifies s.wl.wlistBin, s.wl.wlist, s.wl.wlistPb, s.wl.wlistCardAMO, s.wl.wlistBin[*], s.wl.wlist[*], s.wl.wlistPb[*], s.wl.wlistCardAMO[*]
//@   ensures  lens: len(s.wl.wlistBin) == 2*maxi(s.nbVars, v+1) && len(s.wl.wlist) == 2*maxi(s.nbVars, v+1) && len(s.wl.wlistPb) == 2*maxi(s.nbVars, v+1) && len(s.wl.wlistCardAMO) == 2*maxi(s.nbVars, v+1)
//@   ensures  keepBin: forall(k, 0, 2*s.nbVars, s.wl.wlistBin[k] == old(s.wl.wlistBin[k]))
//@   ensures  keepWl:  forall(k, 0, 2*s.nbVars, s.wl.wlist[k] == old(s.wl.wlist[k]))
//@   ensures  keepPb:  forall(k, 0, 2*s.nbVars, s.wl.wlistPb[k] == old(s.wl.wlistPb[k]))
//@   ensures  keepAMO: forall(k, 0, 2*s.nbVars, s.wl.wlistCardAMO[k] == old(s.wl.wlistCardAMO[k]))
//@   ensures  nilBin: forall(k, 2*s.nbVars, len(s.wl.wlistBin), s.wl.wlistBin[k] == nil)
//@   ensures  nilWl:  forall(k, 2*s.nbVars, len(s.wl.wlist), s.wl.wlist[k] == nil)
//@   ensures  nilPb:  forall(k, 2*s.nbVars, len(s.wl.wlistPb), s.wl.wlistPb[k] == nil)
//@   ensures  nilAMO: forall(k, 2*s.nbVars, len(s.wl.wlistCardAMO), s.wl.wlistCardAMO[k] == nil)
//@   ensures  own:  grown(s.wl.wlistBin) && grown(s.wl.wlist) && grown(s.wl.wlistPb) && grown(s.wl.wlistCardAMO)
//@   loop 1
//@     invariant idx: s.nbVars <= i && (i <= cnfVar || i == s.nbVars) && cnfVar == v + 1
//@     invariant lens: len(s.wl.wlistBin) == 2*i && len(s.wl.wlist) == 2*i && len(s.wl.wlistPb) == 2*i && len(s.wl.wlistCardAMO) == 2*i
//@     invariant own:  grown(s.wl.wlistBin) && grown(s.wl.wlist) && grown(s.wl.wlistPb) && grown(s.wl.wlistCardAMO)
//@     invariant sep:  WFsepWl(s)
//@     invariant keepBin: forall(k, 0, 2*s.nbVars, s.wl.wlistBin[k] == old(s.wl.wlistBin[k]))
//@     invariant keepWl:  forall(k, 0, 2*s.nbVars, s.wl.wlist[k] == old(s.wl.wlist[k]))
//@     invariant keepPb:  forall(k, 0, 2*s.nbVars, s.wl.wlistPb[k] == old(s.wl.wlistPb[k]))
//@     invariant keepAMO: forall(k, 0, 2*s.nbVars, s.wl.wlistCardAMO[k] == old(s.wl.wlistCardAMO[k]))
//@     invariant nilBin: forall(k, 2*s.nbVars, len(s.wl.wlistBin), s.wl.wlistBin[k] == nil)
//@     invariant nilWl:  forall(k, 2*s.nbVars, len(s.wl.wlist), s.wl.wlist[k] == nil)
//@     invariant nilPb:  forall(k, 2*s.nbVars, len(s.wl.wlistPb), s.wl.wlistPb[k] == nil)
//@     invariant nilAMO: forall(k, 2*s.nbVars, len(s.wl.wlistCardAMO), s.wl.wlistCardAMO[k] == nil)

// newVar keeps the representation invariant "every per-variable table has nbVars entries".
//@ func (*Solver).newVar
//@   requires wf: s != nil && WFlen(s) && WFsep(s) && WFsepWl(s)
//@   requires v:  v >= 0 && v < 1073741823
//@   modifies s.model, s.activity, s.polarity, s.reason, s.assumptions, s.trailBuf, s.pbSetBuf, s.pbSetBuf2, s.varQueue, s.nbVars, s.model[*], s.activity[*], s.polarity[*], s.reason[*], s.assumptions[*], s.trailBuf[*], s.pbSetBuf[*], s.pbSetBuf2[*], s.wl.wlistBin, s.wl.wlist, s.wl.wlistPb, s.wl.wlistCardAMO, s.wl.wlistBin[*], s.wl.wlist[*], s.wl.wlistPb[*], s.wl.wlistCardAMO[*]
//@   ensures  wf:    WFlen(s) && s.nbVars == maxi(old(s.nbVars), v+1)
//@   ensures  sep:   WFsep(s) && WFsepWl(s)
//@   ensures  keepM: forall(k, 0, old(s.nbVars), s.model[k] == old(s.model[k]))
//@   ensures  keepR: forall(k, 0, old(s.nbVars), s.reason[k] == old(s.reason[k]))
//@   ensures  keepP: forall(k, 0, old(s.nbVars), s.polarity[k] == old(s.polarity[k]))
//@   ensures  unboundM: forall(k, old(s.nbVars), s.nbVars, s.model[k] == 0)
//@   ensures  unboundR: forall(k, old(s.nbVars), s.nbVars, s.reason[k] == nil)
//@   ensures  own:   grown(s.model) && grown(s.activity) && grown(s.polarity) && grown(s.reason) && grown(s.trailBuf) && grown(s.assumptions) && grown(s.pbSetBuf) && grown(s.pbSetBuf2)
//@   ensures  ownWl: grown(s.wl.wlistBin) && grown(s.wl.wlist) && grown(s.wl.wlistPb) && grown(s.wl.wlistCardAMO)
//@   ensures  ownQ:  grown(s.varQueue.content) && grown(s.varQueue.indices)
//@   ensures  inQ:   v >= old(s.nbVars) ==> len(s.varQueue.indices) >= s.nbVars && forall(k, 0, s.nbVars, s.varQueue.indices[k] >= 0)
//@   loop 1
//@     invariant idx:  s.nbVars == old(s.nbVars) && s.nbVars <= i && i <= cnfVar && cnfVar == v + 1
//@     invariant lens: len(s.model) == i && len(s.activity) == i && len(s.polarity) == i && len(s.reason) == i && len(s.trailBuf) == i && len(s.assumptions) == i && len(s.pbSetBuf) == i && len(s.pbSetBuf2) == i
//@     invariant sep:  WFsep(s) && WFsepWl(s)
//@     invariant own:  grown(s.model) && grown(s.activity) && grown(s.polarity) && grown(s.reason) && grown(s.trailBuf) && grown(s.assumptions) && grown(s.pbSetBuf) && grown(s.pbSetBuf2)
//@     invariant wl:   len(s.wl.wlistBin) == 2*s.nbVars && len(s.wl.wlist) == 2*s.nbVars && len(s.wl.wlistPb) == 2*s.nbVars && len(s.wl.wlistCardAMO) == 2*s.nbVars
//@     invariant keepM: forall(k, 0, old(s.nbVars), s.model[k] == old(s.model[k]))
//@     invariant keepR: forall(k, 0, old(s.nbVars), s.reason[k] == old(s.reason[k]))
//@     invariant keepP: forall(k, 0, old(s.nbVars), s.polarity[k] == old(s.polarity[k]))
//@     invariant unboundM: forall(k, old(s.nbVars), i, s.model[k] == 0)
//@     invariant unboundR: forall(k, old(s.nbVars), i, s.reason[k] == nil)

// backtrackLevel: the highest decision level, other than the level of the falsified literal,
// among the other variables of the constraint (at least 1).
//@ func (*pbSet).backtrackLevel
//@   requires nn:  pb != nil && s != nil && falsified >= 0
//@   requires idx: falsified / 2 < len(s.model) && len(pb.weights) <= len(s.model) && len(pb.weights) < 1073741824
//@   ensures  min:   result >= 1
//@   ensures  upper: forall(i, 0, len(pb.weights), pb.weights[i] != 0 && i != falsified / 2 && absi(s.model[i]) != absi(s.model[falsified / 2]) ==> absi(s.model[i]) <= result)
//@   ensures  attained: result == 1 || exists(i, 0, len(pb.weights), pb.weights[i] != 0 && i != falsified / 2 && absi(s.model[i]) == result && result != absi(s.model[falsified / 2]))
//@   loop 1
//@     invariant idx:   0 <= rangei && rangei <= len(pb.weights) && lvl == absi(s.model[falsified / 2]) && v == falsified / 2
//@     invariant min:   maxLvl >= 1
//@     invariant upper: forall(i, 0, rangei, pb.weights[i] != 0 && i != v && absi(s.model[i]) != lvl ==> absi(s.model[i]) <= maxLvl)
//@     invariant attained: maxLvl == 1 || exists(i, 0, rangei, pb.weights[i] != 0 && i != v && absi(s.model[i]) == maxLvl && maxLvl != lvl)

// falsifies: lit's negation appears in pb (the variable has a weight of the opposite sign).
//@ func (*pbSet).falsifies
//@   requires idx: pb != nil && lit >= 0 && lit / 2 < len(pb.weights)
//@   ensures  def: result <==> (pb.weights[lit / 2] != 0 && ((pb.weights[lit / 2] < 0) <==> (lit % 2 == 0)))

// ---------------------------------------------------------------- clauses (C01, C02)

// holds(c, A): assignment A satisfies the constraint stored in c (clause, cardinality or PB)
//@ define holds(c *Clause, A asg) bool = (c.pbData == nil && psum(c.lits, nil, A, len(c.lits)) >= c.Cardinality()) || (c.pbData != nil && psum(c.lits, c.pbData.weights, A, len(c.lits)) >= c.Cardinality())

//@ func NewPBClause
//@   ghost A asg
//@   requires card: 1 <= card && card <= 1073741824
//@   requires lens: weights == nil || len(weights) == len(lits)
//@   modifies lits[*], weights[*]
//@   sort Sort#1 modifies lits[*], weights[*]
//@   sort Sort#1 invariant perm: psum(lits, weights, A, len(lits)) == old(psum(lits, weights, A, len(lits)))
//@   sort Sort#1 invariant wfl:  old(litsWF(lits, 1073741823)) ==> litsWF(lits, 1073741823)
//@   sort Sort#1 invariant wrng: old(forall(k, 0, len(weights), 0 <= weights[k] && weights[k] <= 1073741824)) ==> forall(k, 0, len(weights), 0 <= weights[k] && weights[k] <= 1073741824)
//@   ensures  arrs:  result.lits == lits && (weights != nil ==> result.pbData.weights == weights) && (weights == nil ==> fresh(result.pbData.weights)) && result.lbdValue == card - 1
//@   ensures  wfl:   old(litsWF(lits, 1073741823)) ==> litsWF(result.lits, 1073741823)
//@   ensures  wrng:  old(forall(k, 0, len(weights), 0 <= weights[k] && weights[k] <= 1073741824)) ==> forall(k, 0, len(result.lits), 0 <= result.pbData.weights[k] && result.pbData.weights[k] <= 1073741824)
//@   ensures  shape: result != nil && fresh(result) && result.pbData != nil && len(result.lits) == len(lits) && len(result.pbData.weights) == len(lits) && len(result.pbData.watched) == len(lits)
//@   ensures  card:  result.Cardinality() == card && !result.Learned()
//@   ensures  sem:   holds(result, A) <==> (old(psum(lits, weights, A, len(lits))) >= card)
//@   loop 1
//@     invariant idx:  0 <= rangei && rangei <= len(lits) && weights == nil
//@     invariant ones: forall(k, 0, rangei, pbd.weights[k] == 1)
//@     invariant shp:  pbd.weights != nil && len(pbd.weights) == len(lits) && fresh(pbd.weights)
//@     invariant perm: psum(lits, nil, A, len(lits)) == old(psum(lits, weights, A, len(lits)))
//@   assert exit ones: old(weights == nil) ==> lem_psum_ones(result.lits, result.pbData.weights, A, len(result.lits))


//@ func (PBConstr).WeightSum
//@   ensures sum: result == wsum(c.Weights, len(c.Lits)) || (c.Weights != nil && result == wsum(c.Weights, len(c.Weights)))
//@   ensures nil: c.Weights == nil ==> result == len(c.Lits)
//@   ensures val: c.Weights != nil ==> result == wsum(c.Weights, len(c.Weights))
//@   loop 1
//@     invariant idx: 0 <= rangei && rangei <= len(c.Weights) && c.Weights != nil
//@     invariant sum: res == wsum(c.Weights, rangei)

// parseTerms: the token-level reader of "w x1 w ~x2 ..." is trusted for the text-to-number
// part (strconv); what is used here: as many weights as literals, literals are variables
// 1..NbVars with a sign, fresh result slices.
//@ func (*Problem).parseTerms
//@   trusted
//@   modifies pb.NbVars
//@   ensures shape: result2 == nil ==> result0 != nil && len(result0) == len(result1) && fresh(result0) && fresh(result1) && arr(result0) != arr(result1)
//@   ensures lits:  result2 == nil ==> forall(k, 0, len(result1), result1[k] != 0 && absi(result1[k]) <= pb.NbVars) && pb.NbVars >= old(pb.NbVars)
//@   ensures rng:   result2 == nil ==> litRange(result1)

// pmodels: assignment A satisfies everything the problem currently holds
//@ define pmodels(pb *Problem, A asg) bool = forall(i, 0, len(pb.Clauses), holds(pb.Clauses[i], A)) && forall(i, 0, len(pb.Units), tv(A, pb.Units[i]))

//@ define cshape(c PBConstr) bool = posW(c.Weights) && nzLits(c.Lits) && litRange(c.Lits) && c.Weights != nil && len(c.Lits) == len(c.Weights)

// parsePBConstrLine: every constraint produced by GtEq / Eq from the parsed terms is stored
// equivalently: either as the unit literals it forces (assert units) or as a PB clause with the
// same meaning (assert clause), or the problem is declared Unsat only if the constraint cannot be
// satisfied (assert unsat). No panic for any right-hand side.
//@ func (*Problem).parsePBConstrLine
//@   ghost A asg
//@   requires nn: pb != nil && pb.NbVars >= 0 && pb.NbVars <= 1073741824
//@   modifies pb.NbVars, pb.Status, pb.Units, pb.Clauses, pb.Units[*], pb.Clauses[*]
//@   assume-input after-call (PBConstr).WeightSum#1 small: result <= 1073741824
//@   assert after-call (PBConstr).WeightSum#1 unsat: result < constr.AtLeast ==> !cholds(constr, A)
//@   assert after-call (PBConstr).WeightSum#1 le: lem_isum_le(constr.Lits, constr.Weights, A, len(constr.Lits))
//@   assert after-call NewPBClause#1 clause: holds(result, A) <==> prev(cholds(constr, A))
//@   assert before-call NewPBClause#1 conv: lem_isum_psum(lits, constr.Lits, constr.Weights, A, len(lits))
//@   assert body-end 3 step3: forall(k, 0, prev(rangei) + 1, lits[k] == ilit(constr.Lits[k]))
//@   loop 1
//@     invariant idx:   0 <= rangei && rangei <= len(constrs)
//@     invariant own:   grown(pb.Units) && grown(pb.Clauses)
//@     invariant shape: forall(k, rangei, len(constrs), cshape(constrs[k]) && fresh(constrs[k].Weights))
//@     invariant dist:  forall(k, rangei, len(constrs), forall(m, rangei, len(constrs), k != m ==> arr(constrs[k].Weights) != arr(constrs[m].Weights)))
//@     invariant distL: forall(k, rangei, len(constrs), forall(m, rangei, len(constrs), arr(constrs[k].Lits) != arr(constrs[m].Weights)))
//@   loop 2
//@     invariant idx:   0 <= rangei && rangei <= len(constr.Lits)
//@     invariant own:   grown(pb.Units) && grown(pb.Clauses)
//@     invariant n:     len(pb.Units) == entry2(len(pb.Units)) + rangei
//@     invariant units: forall(k, 0, rangei, pb.Units[entry2(len(pb.Units)) + k] == ilit(constr.Lits[k]))
//@   loop 3
//@     invariant idx:   0 <= rangei && rangei <= len(constr.Lits) && len(lits) == len(constr.Lits) && fresh(lits)
//@     invariant conv:  forall(k, 0, rangei, lits[k] == ilit(constr.Lits[k]))

// Eq: the returned constraints together mean "sum of weights of true literals == n".
//@ func Eq
//@   ghost A asg
//@   requires lens: weights != nil && len(lits) == len(weights)
//@   requires nz:   nzLits(lits)
//@   requires sep:  arr(lits) != arr(weights)
//@   modifies lits[*], weights[*]
//@   ensures  shape: forall(k, 0, len(result), result[k].Weights != nil && len(result[k].Lits) == len(result[k].Weights) && result[k].AtLeast > 0 && posW(result[k].Weights) && nzLits(result[k].Lits))
//@   ensures  rng:   old(litRange(lits)) ==> forall(k, 0, len(result), litRange(result[k].Lits))
//@   ensures  equiv: (old(isum(lits, weights, A, len(lits))) == n) <==> forall(k, 0, len(result), cholds(result[k], A))
//@   ensures  len:   len(result) <= 2
//@   ensures  dist:  forall(k, 0, len(result), forall(m, 0, len(result), k != m ==> arr(result[k].Weights) != arr(result[m].Weights)))
//@   ensures  own:   forall(k, 0, len(result), fresh(result[k].Weights) || arr(result[k].Weights) == arr(weights))
//@   ensures  distLW: forall(k, 0, len(result), forall(m, 0, len(result), arr(result[k].Lits) != arr(result[m].Weights)))
//@   assert before-call GtEq#1 copied: forall(k, 0, len(lits), lits2[k] == lits[k] && weights2[k] == weights[k]) && len(lits2) == len(lits) && len(weights2) == len(weights)
//@   assert before-call GtEq#1 copySum: isum(lits2, weights2, A, len(lits2)) == isum(lits, weights, A, len(lits))
//@   assert after-call LtEq#1 nonneg: lem_isum_nonneg(ge.Lits, ge.Weights, A, len(ge.Lits)) && lem_isum_nonneg(result.Lits, result.Weights, A, len(result.Lits))
//@   assert after-call GtEq#1 ge0: (old(isum(lits, weights, A, len(lits))) >= n) <==> cholds(result, A)
//@   assert after-call LtEq#1 gekeep1: posW(ge.Weights)
//@   assert after-call LtEq#1 gekeep2: nzLits(ge.Lits)
//@   assert after-call LtEq#1 gekeep3: old(litRange(lits)) ==> litRange(ge.Lits)
//@   assert after-call LtEq#1 gekeep4: (old(isum(lits, weights, A, len(lits))) >= n) <==> cholds(ge, A)
//@   assert exit elems: forall(k, 0, len(result), result[k] == ge || result[k] == le)
//@   assert exit both: (ge.AtLeast > 0 ==> len(result) >= 1 && result[0] == ge) && (le.AtLeast > 0 ==> len(result) >= 1 && result[len(result)-1] == le)

// ---------------------------------------------------------------- solving and optimisation (C03, C20)

// what a live solver currently holds: its original-constraint list and its top-level bindings
//@ define agreesL1(s *Solver, A asg) bool = forall(v, 0, len(s.model), (s.model[v] == 1 ==> A[v]) && (s.model[v] == -1 ==> !A[v]))
//@ define smodels(s *Solver, A asg) bool = forall(i, 0, len(s.wl.origClauses), holds(s.wl.origClauses[i], A)) && agreesL1(s, A)
//@ define costOf(s *Solver, A asg) int = psum(s.minLits, s.minWeights, A, len(s.minLits))
//@ define sepInt(w []int, s *Solver) bool = !aliased(w, s.trailBuf) && !aliased(w, s.pbSetBuf) && !aliased(w, s.pbSetBuf2) && !aliased(w, s.varQueue.content) && !aliased(w, s.varQueue.indices)
//@ define WFopt(s *Solver) bool = s != nil && WFlen(s) && WFsep(s) && WFsepWl(s) && (s.minWeights == nil || len(s.minWeights) == len(s.minLits)) && forall(k, 0, len(s.minLits), 0 <= s.minLits[k] && s.minLits[k] < 2*s.nbVars) && forall(k, 0, len(s.minWeights), s.minWeights[k] >= 0) && s.nbVars <= 1073741823 && sepInt(s.minWeights, s) && !aliased(s.model, s.lastModel) && !aliased(s.units, s.minLits) && !aliased(s.units, s.hypothesis)
//@ define sameMin(s *Solver) bool = s.minLits == old(s.minLits) && s.minWeights == old(s.minWeights) && forall(k, 0, len(s.minLits), s.minLits[k] == old(s.minLits[k])) && forall(k, 0, len(s.minWeights), s.minWeights[k] == old(s.minWeights[k]))
//@ define better(s *Solver, B asg, cost int) bool = cost == 0 || costOf(s, B) <= cost - 1
//@ define total(s *Solver) bool = forall(v, 0, len(s.model), s.model[v] != 0)
//@ define sameCost(s *Solver) bool = s.minLits == old(s.minLits) && s.minWeights == old(s.minWeights) && forall(k, 0, len(s.minLits), s.minLits[k] == old(s.minLits[k])) && forall(k, 0, len(s.minWeights), s.minWeights[k] == old(s.minWeights[k])) && s.hypothesis == old(s.hypothesis) && forall(k, 0, len(s.hypothesis), s.hypothesis[k] == old(s.hypothesis[k]))

// Solve: the CDCL search is NOT verified; this contract is the standing assumption under which
// the optimisation, enumeration and MUS glue is verified (DESIGN.md, C01).
//@ func (*Solver).Solve
//@   trusted
//@   ghost A asg
//@   requires wf: WFopt(s)
//@   modifies s.*, all Clause.lits, all Clause.lbdValue, all Clause.activity, all pbData.weights, all pbData.watched, all []Lit, all []decLevel, all []bool, all []int, all []*Clause, all []watcher, all [][]watcher, all [][]*Clause, all []float64
//@   ensures  status: result == s.status && (result == Sat || result == Unsat) && (old(s.status) == Unsat ==> result == Unsat)
//@   ensures  wf:     WFopt(s) && s.nbVars == old(s.nbVars) && sameCost(s)
//@   ensures  keepLM: result == Unsat ==> s.lastModel == old(s.lastModel) && forall(v, 0, len(s.lastModel), s.lastModel[v] == old(s.lastModel[v]))
//@   ensures  sat:    result == Sat ==> total(s) && smodels(s, asgof(s.model)) && s.lastModel != nil && len(s.lastModel) == s.nbVars && forall(v, 0, s.nbVars, s.lastModel[v] == s.model[v])
//@   ensures  unsat:  result == Unsat && old(s.status) != Unsat ==> !old(smodels(s, A))
//@   ensures  same:   result == Sat ==> (smodels(s, A) <==> old(smodels(s, A)))
//@   ensures  flags:  s.Verbose == old(s.Verbose) && s.Certified == old(s.Certified) && s.CertChan == old(s.CertChan) && s.CuttingPlanes == old(s.CuttingPlanes)

// what the constraint c is worth under A, and its total weight over the first n literals
//@ define psumc(c *Clause, A asg) int = ite(c.pbData == nil, psum(c.lits, nil, A, len(c.lits)), psum(c.lits, c.pbData.weights, A, len(c.lits)))
//@ define wsumc(c *Clause, n int) int = ite(c.pbData == nil, n, wsum(c.pbData.weights, n))
//@ define cwf(c *Clause) bool = c != nil && !c.Learned() && c.lbdValue < 1073741824 && litsWF(c.lits, 1073741823) && len(c.lits) <= 1073741824 && (c.pbData != nil ==> c.pbData.weights != nil && len(c.pbData.weights) == len(c.lits) && forall(k, 0, len(c.lits), 0 <= c.pbData.weights[k] && c.pbData.weights[k] <= 1073741824))

// propagateUnits: the body is verified for the structural part (bound: every listed unit ends up
// true at level 1 unless the solver turns Unsat; a unit whose negation is already true at the top
// level must give Unsat, it may not be overwritten or skipped). The semantic clauses keep / unsat /
// wf speak about unit propagation, which is not verified: they stay assumptions at call sites
// (listed as "postcondition written but NOT discharged" in the evidence).
//@ func lvlToSignedLvl
//@   requires nonneg: l >= 0
//@   ensures  def: result == ite(l % 2 == 0, lvl, -lvl)

//@ func (*Solver).litStatus
//@   requires wf: s != nil && l >= 0 && l / 2 < len(s.model)
//@   ensures  def: result == ite(s.model[l / 2] == 0, Indet, ite((s.model[l / 2] > 0) == (l % 2 == 0), Sat, Unsat))

//@ func (*lbdStats).addLbd
//@   trusted
//@   modifies l.*

//@ func (*Solver).unifyLiteral
//@   ghost keepl []Lit
//@   requires wf: s != nil && WFlen(s) && lit >= 0 && lit / 2 < s.nbVars
//@   instantiate (*Solver).propagate#1 keepl = keepl
//@   modifies s.model[*], s.reason[*], s.trail, s.trail[*], all Clause.lbdValue, all []Lit, all []int, all []bool, all []watcher, all [][]watcher, all [][]*Clause, all Clause.activity, s.Stats.*, s.lbdStats.*
//@   ensures  keep:  forall(v, 0, s.nbVars, v != lit / 2 && old(s.model[v]) != 0 ==> s.model[v] == old(s.model[v]))
//@   ensures  bound: s.model[lit / 2] == ite(lit % 2 == 0, lvl, -lvl) || lvl == 0
//@   ensures  wf:    WFlen(s) && s.nbVars == old(s.nbVars)
//@   ensures  trail: grown(s.trail)
//@   ensures  keepl: !aliased(keepl, old(s.trail)) ==> forall(k, 0, len(keepl), keepl[k] == old(keepl[k]))

//@ func (*Solver).propagateUnits
//@   ghost A asg
//@   requires wf: WFopt(s) && litsWF(units, s.nbVars)
//@   requires sepu: !aliased(units, s.trail)
//@   instantiate (*Solver).unifyLiteral#1 keepl = units
//@   modifies s.*, all Clause.lits, all Clause.lbdValue, all Clause.activity, all pbData.weights, all pbData.watched, all []Lit, all []decLevel, all []bool, all []int, all []*Clause, all []watcher, all [][]watcher, all [][]*Clause, all []float64
//@   ensures  bound: s.status != Unsat ==> forall(k, 0, len(units), s.model[old(units[k]) / 2] == ite(old(units[k]) % 2 == 0, 1, -1))
//@   ensures  wf:    WFopt(s) && s.nbVars == old(s.nbVars) && sameCost(s)
//@   ensures  keep:  s.status != Unsat ==> (smodels(s, A) <==> (old(smodels(s, A)) && old(forall(k, 0, len(units), tv(A, units[k])))))
//@   ensures  unsat: s.status == Unsat && old(s.status) != Unsat ==> !(old(smodels(s, A)) && old(forall(k, 0, len(units), tv(A, units[k]))))
//@   ensures  sticky: old(s.status) == Unsat ==> s.status == Unsat
//@   ensures  flags:  s.Verbose == old(s.Verbose) && s.lastModel == old(s.lastModel) && forall(v, 0, len(s.lastModel), s.lastModel[v] == old(s.lastModel[v]))
//@   loop 1
//@     invariant idx:   0 <= rangei && rangei <= len(units) && s != nil && WFlen(s) && s.nbVars == old(s.nbVars) && s.status == old(s.status)
//@     invariant sepu:  !aliased(units, s.trail) && forall(k, 0, len(units), units[k] == old(units[k]))
//@     invariant bound: forall(k, 0, rangei, s.model[old(units[k]) / 2] == ite(old(units[k]) % 2 == 0, 1, -1))

//@ func (*Solver).appendClause
//@   trusted
//@   ghost A asg
//@   requires wf: WFopt(s) && clause != nil && litsWF(clause.lits, s.nbVars)
//@   modifies s.wl.origClauses, s.wl.origClauses[*], s.wl.wlist[*], s.wl.wlistBin[*], s.wl.wlistPb[*], s.wl.wlistCardAMO[*], clause.lits[*], clause.pbData.weights[*], clause.pbData.watched[*], all []watcher, all []*Clause
//@   ensures  wf:    WFopt(s) && s.nbVars == old(s.nbVars) && sameCost(s)
//@   ensures  keep:  smodels(s, A) <==> (old(smodels(s, A)) && old(holds(clause, A)))
//@   ensures  flags: s.status == old(s.status) && s.Verbose == old(s.Verbose) && s.lastModel == old(s.lastModel) && forall(v, 0, len(s.lastModel), s.lastModel[v] == old(s.lastModel[v]))

// AppendClause: the normalisation loop is verified structurally: literals that are true / false at
// the top level or have weight 0 are removed, the degree is lowered by exactly the weight of the
// removed true literals (cardv), maxW - minW is the total weight of what is left (sums), what is
// left is unbound, has a positive weight and mentions only variables the solver now knows; the
// unit rule is only applied to such literals (unitpos, unitfree); the solver's representation
// invariant WFopt is re-established and the cost function is untouched. The semantic clauses
// keep / unsat rest on unit propagation and the watch lists (propagateUnits, appendClause) and are
// NOT discharged: callers assume them (listed in the evidence).
//@ func (*Solver).AppendClause
//@   ghost A asg
//@   requires wf:  WFopt(s)
//@   requires cl:  cwf(clause) && clause.Cardinality() >= 1 && clause.Cardinality() <= 1073741824
//@   requires owned: forall(v, 0, s.nbVars, s.reason[v] != clause) && (clause.pbData != nil ==> sepInt(clause.pbData.weights, s) && !aliased(clause.pbData.weights, s.minWeights))
//@   requires ownedL: !aliased(clause.lits, s.trail) && !aliased(clause.lits, s.units) && !aliased(clause.lits, s.hypothesis) && !aliased(clause.lits, s.minLits)
//@   modifies s.*, clause.*, all Clause.lits, all Clause.lbdValue, all pbData.weights, all pbData.watched, all []Lit, all []decLevel, all []bool, all []int, all []*Clause, all []watcher, all [][]watcher, all [][]*Clause, all []float64
//@   instantiate (*Solver).cleanupBindings#1 keepc = clause
//@   assert before-call (*Solver).propagateUnits#1 unitpos: clause.pbData != nil ==> forall(k, 0, len(clause.lits), clause.pbData.weights[k] >= 1)
//@   assert before-call (*Solver).propagateUnits#1 unitfree: forall(k, 0, len(clause.lits), s.model[clause.lits[k] / 2] == 0)
//@   loop 1
//@     modifies s.model, s.activity, s.polarity, s.reason, s.assumptions, s.trailBuf, s.pbSetBuf, s.pbSetBuf2, s.varQueue, s.nbVars, s.model[*], s.activity[*], s.polarity[*], s.reason[*], s.assumptions[*], s.trailBuf[*], s.pbSetBuf[*], s.pbSetBuf2[*], s.wl.wlistBin, s.wl.wlist, s.wl.wlistPb, s.wl.wlistCardAMO, s.wl.wlistBin[*], s.wl.wlist[*], s.wl.wlistPb[*], s.wl.wlistCardAMO[*], clause.lits, clause.lits[*], clause.lbdValue, clause.pbData.weights, clause.pbData.weights[*]
//@     invariant wf:    s != nil && WFlen(s) && WFsep(s) && WFsepWl(s) && s.nbVars >= entry1(s.nbVars) && s.nbVars <= 1073741823
//@     invariant own:   grown(s.model) && grown(s.activity) && grown(s.polarity) && grown(s.reason) && grown(s.trailBuf) && grown(s.assumptions) && grown(s.pbSetBuf) && grown(s.pbSetBuf2) && grown(s.wl.wlistBin) && grown(s.wl.wlist) && grown(s.wl.wlistPb) && grown(s.wl.wlistCardAMO) && grown(s.varQueue.content) && grown(s.varQueue.indices)
//@     invariant shape: clause != nil && !clause.Learned() && clause.lbdValue < 1073741824 && litsWF(clause.lits, 1073741823) && sameArray(clause.lits, entry1(clause.lits)) && len(clause.lits) <= entry1(len(clause.lits)) && (clause.pbData != nil) == entry1(clause.pbData != nil)
//@     invariant shapeW: clause.pbData != nil ==> clause.pbData.weights != nil && len(clause.pbData.weights) == len(clause.lits) && sameArray(clause.pbData.weights, entry1(clause.pbData.weights)) && forall(k, 0, len(clause.lits), 0 <= clause.pbData.weights[k] && clause.pbData.weights[k] <= 1073741824)
//@     invariant idx:   0 <= i && i <= len(clause.lits) && minW >= 0 && card == entry1(clause.Cardinality()) && card >= 1 && card <= 1073741824
//@     invariant seen:  forall(k, 0, i, clause.lits[k] / 2 < s.nbVars)
//@     invariant keptW: clause.pbData != nil ==> forall(k, 0, i, clause.pbData.weights[k] >= 1)
//@     invariant l1:    forall(v, 0, s.nbVars, absi(s.model[v]) <= 1)
//@     invariant kept:  forall(k, 0, i, s.model[clause.lits[k] / 2] == 0)
//@     invariant sums:  maxW == minW + wsumc(clause, i)
//@     invariant cardv: clause.Cardinality() == maxi(card - minW, 1)
//@   ensures  wf:    WFopt(s) && s.nbVars >= old(s.nbVars)
//@   ensures  cost:  sameCost(s)
//@   ensures  keep:  s.status != Unsat ==> (smodels(s, A) <==> (old(smodels(s, A)) && old(holds(clause, A))))
//@   ensures  unsat: s.status == Unsat && old(s.status) != Unsat ==> !(old(smodels(s, A)) && old(holds(clause, A)))
//@   ensures  sticky: old(s.status) == Unsat ==> s.status == Unsat
//@   ensures  flags:  s.Verbose == old(s.Verbose) && s.lastModel == old(s.lastModel)
//@   ensures  flagsM: forall(v, 0, len(s.lastModel), s.lastModel[v] == old(s.lastModel[v]))

//@ func (*Solver).rebuildOrderHeap
//@   trusted
//@   modifies s.varQueue

// Model: one boolean per variable, true iff the saved model binds the variable positively.
//@ func (*Solver).Model
//@   requires sat: s != nil && s.lastModel != nil && len(s.lastModel) <= s.nbVars && s.nbVars >= 0
//@   ensures  shape: len(result) == s.nbVars && fresh(result)
//@   ensures  vals:  forall(i, 0, len(s.lastModel), result[i] == (s.lastModel[i] > 0))
//@   loop 1
//@     invariant idx:  0 <= rangei && rangei <= len(s.lastModel) && len(res) == s.nbVars && fresh(res)
//@     invariant vals: forall(i, 0, rangei, res[i] == (s.lastModel[i] > 0))

// Optimal (relative to the Solve / AppendClause contracts above): the channel is closed exactly
// once on every path; every delivered result carries the cost of its own model; delivered costs
// strictly decrease; the returned result is the last one delivered; when the search ends with
// Unsat no model of the original content is cheaper than the returned one (invariant sem + exit).
//@ func (*Solver).Optimal
//@   ghost A asg
//@   requires wf: WFopt(s)
//@   requires ch: results != nil ==> !closed(results)
//@   requires small: (s.minWeights == nil && len(s.minLits) <= 1073741824) || (s.minWeights != nil && wsum(s.minWeights, len(s.minWeights)) <= 1073741824)
//@   modifies s.*, all Clause.lits, all Clause.lbdValue, all Clause.activity, all pbData.weights, all pbData.watched, all []Lit, all []decLevel, all []bool, all []int, all []*Clause, all []watcher, all [][]watcher, all [][]*Clause, all []float64
//@   ensures  closed: results != nil ==> closed(results)
//@   ensures  last:   results != nil ==> nsent(results) > old(nsent(results)) && lastsent(results).Status == res.Status && lastsent(results).Weight == res.Weight && lastsent(results).Model == res.Model
//@   sends results dec:   nsent(results) > old(nsent(results)) && msg.Status == Sat ==> lastsent(results).Status == Sat && msg.Weight < lastsent(results).Weight
//@   sends results fresh: msg.Status == Sat ==> fresh(msg.Model)
//@   sends results iter:  msg.Status == Sat && old(s.minLits != nil) ==> arr(msg.Model) > head(curalloc())
//@   ensures  status: res.Status == Sat || res.Status == Unsat
//@   ensures  unsat:  res.Status == Unsat && old(s.status) != Unsat ==> !old(smodels(s, A))
//@   ensures  nocost: old(s.minLits == nil) && res.Status == Sat ==> res.Weight == 0
//@   ensures  optimal: res.Status == Sat && old(s.status) != Unsat && old(s.minLits != nil) ==> forallasg(B, old(smodels(s, B)) ==> old(costOf(s, B)) >= res.Weight)
//@   loop 1
//@     modifies nothing
//@     invariant idx: 0 <= rangei && rangei <= len(s.minWeights) && s.minWeights != nil
//@     invariant sum: maxCost == wsum(s.minWeights, rangei) && maxCost >= 0
//@   loop 2
//@     modifies s.hypothesis[*]
//@     invariant idx: 0 <= rangei && rangei <= len(s.minLits) && len(s.hypothesis) == len(s.minLits) && fresh(s.hypothesis)
//@     invariant neg: forall(k, 0, rangei, s.hypothesis[k] == nlit(s.minLits[k]) && s.hypothesis[k] >= 0)
//@     invariant keep: forall(k, 0, len(s.minLits), s.minLits[k] == entry2(s.minLits[k]))
//@   loop 3
//@     modifies weights[*]
//@     invariant idx: 0 <= rangei && rangei <= len(weights) && len(weights) == len(s.minLits) && fresh(weights) && s.minWeights == nil
//@     invariant ones: forall(k, 0, rangei, weights[k] == 1)
//@   assert before-call Sort#1 entryEq: forallasg(B, smodels(s, B) <==> old(smodels(s, B)))
//@   assert after-call Sort#1 entryEq2: forallasg(B, smodels(s, B) <==> old(smodels(s, B)))
//@   assert after-call (*Solver).Model#2 inst0: asgmark(asgof(s.model))
//@   assert after-call (*Solver).Model#2 resw: cost == costOf(s, asgof(s.model)) && forall(i, 0, len(s.lastModel), result[i] == (s.lastModel[i] > 0) && s.lastModel[i] == s.model[i])
//@   assert exit e1: old(s.minLits != nil) && old(s.status) != Unsat && res.Status == Sat ==> forallasg(B, entry4(smodels(s, B)) <==> old(smodels(s, B)))
//@   assert exit e2: forallasg(B, old(costOf(s, B)) == costOf(s, B))
//@   assert exit nonneg: forallasg(B, lem_psum_le(s.minLits, s.minWeights, B, len(s.minLits)))
//@   assert before-call Sort#1 keepSat: total(s) && smodels(s, asgof(s.model))
//@   assert after-call Sort#1 keepSat2: total(s) && smodels(s, asgof(s.model))
//@   assert before-call NewPBClause#1 le: lem_psum_le(s.minLits, s.minWeights, asgof(s.model), len(s.minLits)) && cost == costOf(s, asgof(s.model))
//@   assert before-call NewPBClause#1 frameB: forallasg(B, smodels(s, B) <==> head(smodels(s, B)))
//@   assert before-call NewPBClause#1 inst: asgmark(asgof(s.model))
//@   assert after-call NewPBClause#1 cl: forallasg(B, holds(result, B) <==> (costOf(s, B) <= cost - 1))
//@   assert after-call (*Solver).AppendClause#1 k1: s.status != Unsat ==> forallasg(B, smodels(s, B) <==> (prev(smodels(s, B)) && costOf(s, B) <= cost - 1))
//@   assert after-call (*Solver).AppendClause#1 k1u: s.status == Unsat ==> forallasg(B, !(prev(smodels(s, B)) && costOf(s, B) <= cost - 1))
//@   assert after-call (*Solver).Solve#2 k2: result == Sat ==> forallasg(B, smodels(s, B) <==> prev(smodels(s, B)))
//@   assert after-call (*Solver).Solve#2 k2u: result == Unsat && prev(s.status) != Unsat ==> forallasg(B, !prev(smodels(s, B)))
//@   assert body-end 4 dec: prev(res.Status) != Sat || res.Weight <= prev(res.Weight) - 1
//@   assert before-call Sort#1 negsum: forallasg(B, lem_psum_negl(s.hypothesis, s.minLits, weights, B, len(s.minLits)))
//@   assert before-call Sort#1 ones:   s.minWeights == nil ==> forallasg(B, lem_psum_ones(s.minLits, weights, B, len(s.minLits))) && lem_wsum_ones(weights, len(weights))
//@   assert before-call Sort#1 H:      forallasg(B, psum(s.hypothesis, weights, B, len(s.hypothesis)) == maxCost - costOf(s, B))
//@   sort Sort#1 modifies s.hypothesis[*], weights[*]
//@   sort Sort#1 invariant lens: len(weights) == len(s.hypothesis) && len(s.hypothesis) == len(s.minLits)
//@   sort Sort#1 invariant perm: forallasg(B, psum(s.hypothesis, weights, B, len(s.hypothesis)) == maxCost - costOf(s, B))
//@   sort Sort#1 invariant hypWF: litsWF(s.hypothesis, s.nbVars)
//@   sort Sort#1 invariant wrng: forall(k, 0, len(weights), 0 <= weights[k] && weights[k] <= 1073741824)
//@   assert before-call Sort#1 welem: s.minWeights != nil ==> lem_wsum_elem(s.minWeights, len(s.minWeights))
//@   assert before-call Sort#1 hypWF: litsWF(s.hypothesis, s.nbVars)
//@   assert before-call Sort#1 wrng: forall(k, 0, len(weights), 0 <= weights[k] && weights[k] <= 1073741824)
//@   loop 4
//@     invariant wf:    WFopt(s) && sameMin(s) && maxCost >= 0 && (s.minWeights == nil ==> maxCost == len(s.minLits)) && (s.minWeights != nil ==> maxCost == wsum(s.minWeights, len(s.minWeights)))
//@     invariant shape: s.minLits != nil && len(s.hypothesis) == len(s.minLits) && len(weights) == len(s.minLits) && fresh(weights) && s.lastModel != nil && len(s.lastModel) <= s.nbVars && len(s.lastModel) <= len(s.model)
//@     invariant H:     forallasg(B, psum(s.hypothesis, weights, B, len(s.hypothesis)) == maxCost - costOf(s, B))
//@     invariant hypWF: litsWF(s.hypothesis, s.nbVars)
//@     invariant wrng:  forall(k, 0, len(weights), 0 <= weights[k] && weights[k] <= 1073741824)
//@     invariant st1:   status == s.status
//@     invariant st2:   status == Sat || status == Unsat
//@     invariant st4:   status == Sat || res.Status == Sat
//@     invariant sat:   status == Sat ==> total(s) && smodels(s, asgof(s.model))
//@     invariant semOK1: s.status != Unsat ==> forallasg(B, smodels(s, B) ==> (entry4(smodels(s, B)) && (res.Status != Sat || costOf(s, B) <= res.Weight - 1)))
//@     invariant semOK2: s.status != Unsat ==> forallasg(B, (entry4(smodels(s, B)) && (res.Status != Sat || costOf(s, B) <= res.Weight - 1)) ==> smodels(s, B))
//@     invariant semUn: s.status == Unsat ==> forallasg(B, !(entry4(smodels(s, B)) && (res.Status != Sat || costOf(s, B) <= res.Weight - 1)))
//@     invariant res:   (res.Status == Sat || res.Status == Indet) && (res.Status == Sat ==> res.Weight > 0)
//@     invariant chan:  results != nil ==> !closed(results) && (res.Status == Sat ==> nsent(results) > old(nsent(results)) && lastsent(results).Status == Sat && lastsent(results).Weight == res.Weight && lastsent(results).Model == res.Model) && (res.Status != Sat ==> nsent(results) == old(nsent(results)))
//@   loop 5
//@     modifies nothing
//@     invariant idx:   0 <= rangei && rangei <= len(s.minLits)
//@     invariant cost:  cost == psum(s.minLits, s.minWeights, asgof(s.model), rangei) && cost >= 0

// Minimize: same statement as Optimal for the integer-returning entry point.
//@ func (*Solver).Minimize
//@   ghost A asg
//@   requires wf: WFopt(s)
//@   requires small: (s.minWeights == nil && len(s.minLits) <= 1073741824) || (s.minWeights != nil && wsum(s.minWeights, len(s.minWeights)) <= 1073741824)
//@   modifies s.*, all Clause.lits, all Clause.lbdValue, all Clause.activity, all pbData.weights, all pbData.watched, all []Lit, all []decLevel, all []bool, all []int, all []*Clause, all []watcher, all [][]watcher, all [][]*Clause, all []float64
//@   ensures  range:  result >= -1
//@   ensures  unsat:  result == -1 && old(s.status) != Unsat ==> !old(smodels(s, A))
//@   ensures  nocost: old(s.minLits == nil) && old(s.status) != Unsat ==> result == 0 || result == -1
//@   ensures  optimal: result >= 0 && old(s.status) != Unsat && old(s.minLits != nil) ==> forallasg(B, old(smodels(s, B)) ==> old(costOf(s, B)) >= result)
//@   loop 1
//@     modifies nothing
//@     invariant idx: 0 <= rangei && rangei <= len(s.minWeights) && s.minWeights != nil
//@     invariant sum: maxCost == wsum(s.minWeights, rangei) && maxCost >= 0
//@   loop 2
//@     modifies s.hypothesis[*]
//@     invariant idx: 0 <= rangei && rangei <= len(s.minLits) && len(s.hypothesis) == len(s.minLits) && fresh(s.hypothesis)
//@     invariant neg: forall(k, 0, rangei, s.hypothesis[k] == nlit(s.minLits[k]) && s.hypothesis[k] >= 0)
//@     invariant keep: forall(k, 0, len(s.minLits), s.minLits[k] == entry2(s.minLits[k]))
//@   loop 3
//@     modifies weights[*]
//@     invariant idx: 0 <= rangei && rangei <= len(weights) && len(weights) == len(s.minLits) && fresh(weights) && s.minWeights == nil
//@     invariant ones: forall(k, 0, rangei, weights[k] == 1)
//@   assert before-call Sort#1 entryEq: forallasg(B, smodels(s, B) <==> old(smodels(s, B)))
//@   assert after-call Sort#1 entryEq2: forallasg(B, smodels(s, B) <==> old(smodels(s, B)))
//@   assert before-call Sort#1 keepSat: total(s) && smodels(s, asgof(s.model))
//@   assert after-call Sort#1 keepSat2: total(s) && smodels(s, asgof(s.model))
//@   assert before-call Sort#1 negsum: forallasg(B, lem_psum_negl(s.hypothesis, s.minLits, weights, B, len(s.minLits)))
//@   assert before-call Sort#1 ones:   s.minWeights == nil ==> forallasg(B, lem_psum_ones(s.minLits, weights, B, len(s.minLits))) && lem_wsum_ones(weights, len(weights))
//@   assert before-call Sort#1 H:      forallasg(B, psum(s.hypothesis, weights, B, len(s.hypothesis)) == maxCost - costOf(s, B))
//@   sort Sort#1 modifies s.hypothesis[*], weights[*]
//@   sort Sort#1 invariant lens: len(weights) == len(s.hypothesis) && len(s.hypothesis) == len(s.minLits)
//@   sort Sort#1 invariant perm: forallasg(B, psum(s.hypothesis, weights, B, len(s.hypothesis)) == maxCost - costOf(s, B))
//@   sort Sort#1 invariant hypWF: litsWF(s.hypothesis, s.nbVars)
//@   sort Sort#1 invariant wrng: forall(k, 0, len(weights), 0 <= weights[k] && weights[k] <= 1073741824)
//@   assert before-call Sort#1 welem: s.minWeights != nil ==> lem_wsum_elem(s.minWeights, len(s.minWeights))
//@   assert before-call Sort#1 hypWF: litsWF(s.hypothesis, s.nbVars)
//@   assert before-call Sort#1 wrng: forall(k, 0, len(weights), 0 <= weights[k] && weights[k] <= 1073741824)
//@   assert before-call NewPBClause#1 frameB: forallasg(B, smodels(s, B) <==> head(smodels(s, B)))
//@   assert before-call NewPBClause#1 le: lem_psum_le(s.minLits, s.minWeights, asgof(s.model), len(s.minLits)) && cost == costOf(s, asgof(s.model))
//@   assert before-call NewPBClause#1 inst: asgmark(asgof(s.model))
//@   assert after-call NewPBClause#1 cl: forallasg(B, holds(result, B) <==> (costOf(s, B) <= cost - 1))
//@   assert after-call (*Solver).AppendClause#1 k1: s.status != Unsat ==> forallasg(B, smodels(s, B) <==> (prev(smodels(s, B)) && costOf(s, B) <= cost - 1))
//@   assert after-call (*Solver).AppendClause#1 k1u: s.status == Unsat ==> forallasg(B, !(prev(smodels(s, B)) && costOf(s, B) <= cost - 1))
//@   assert body-end 4 dec: prev(cost) == 0 || cost <= prev(cost) - 1
//@   assert exit nonneg: forallasg(B, lem_psum_le(s.minLits, s.minWeights, B, len(s.minLits)))
//@   loop 4
//@     invariant wf:    WFopt(s) && sameMin(s) && maxCost >= 0 && (s.minWeights == nil ==> maxCost == len(s.minLits)) && (s.minWeights != nil ==> maxCost == wsum(s.minWeights, len(s.minWeights)))
//@     invariant shape: s.minLits != nil && len(s.hypothesis) == len(s.minLits) && len(weights) == len(s.minLits) && fresh(weights) && s.lastModel != nil && len(s.lastModel) <= s.nbVars && len(s.lastModel) <= len(s.model)
//@     invariant H:     forallasg(B, psum(s.hypothesis, weights, B, len(s.hypothesis)) == maxCost - costOf(s, B))
//@     invariant hypWF: litsWF(s.hypothesis, s.nbVars)
//@     invariant wrng:  forall(k, 0, len(weights), 0 <= weights[k] && weights[k] <= 1073741824)
//@     invariant st1:   status == s.status
//@     invariant st2:   status == Sat || status == Unsat
//@     invariant st3:   cost >= 0 && (status == Sat || cost > 0)
//@     invariant sat:   status == Sat ==> total(s) && smodels(s, asgof(s.model))
//@     invariant semOK1: s.status != Unsat ==> forallasg(B, smodels(s, B) ==> (entry4(smodels(s, B)) && better(s, B, cost)))
//@     invariant semOK2: s.status != Unsat ==> forallasg(B, (entry4(smodels(s, B)) && better(s, B, cost)) ==> smodels(s, B))
//@     invariant semUn: s.status == Unsat ==> forallasg(B, !(entry4(smodels(s, B)) && better(s, B, cost)))
//@   loop 5
//@     modifies nothing
//@     invariant idx:   0 <= rangei && rangei <= len(s.minLits)
//@     invariant cost:  cost == psum(s.minLits, s.minWeights, asgof(s.model), rangei) && cost >= 0

// ---------------------------------------------------------------- counting and enumeration (C05)

// countCurrentModels: 2^k where k is the number of variables the saved model leaves unbound.
//@ func (*Solver).countCurrentModels
//@   requires nn: s != nil
//@   ensures  pow: result == pow2(czero(s.lastModel, len(s.lastModel)))
//@   loop 1
//@     modifies nothing
//@     invariant idx: 0 <= rangei && rangei <= len(s.lastModel)
//@     invariant pow: nb == pow2(czero(s.lastModel, rangei))

// addCurrentModels: sends every total extension of the saved model exactly as "bound variables
// as in the model, the j-th unbound variable = bit j of the counter", one fresh slice per model,
// 2^k of them.
//@ func (*Solver).addCurrentModels
//@   requires nn: s != nil && ch != nil && !closed(ch) && s.nbVars >= 0 && len(s.lastModel) <= s.nbVars
//@   ensures  count: result == pow2(czero(s.lastModel, len(s.lastModel)))
//@   ensures  nsent: nsent(ch) == old(nsent(ch)) + result && !closed(ch)
//@   sends ch shape: len(msg) == s.nbVars && arr(msg) > head(curalloc())
//@   sends ch bound: forall(v, 0, len(s.lastModel), s.lastModel[v] != 0 ==> msg[v] == (s.lastModel[v] > 0))
//@   sends ch free:  forall(j, 0, len(unbound), msg[unbound[j]] == bit(i, j))
//@   loop 1
//@     invariant idx:   0 <= rangei && rangei <= len(s.lastModel) && len(model) == s.nbVars && fresh(model) && fresh(unbound) && cap(unbound) == s.nbVars && len(unbound) <= rangei
//@     invariant nb:    nb == pow2(len(unbound)) && len(unbound) == czero(s.lastModel, rangei)
//@     invariant ub:    forall(j, 0, len(unbound), 0 <= unbound[j] && unbound[j] < rangei && s.lastModel[unbound[j]] == 0)
//@     invariant inc:   forall(p, 0, len(unbound), forall(q, p+1, len(unbound), unbound[p] < unbound[q]))
//@     invariant bound: forall(v, 0, rangei, s.lastModel[v] != 0 ==> model[v] == (s.lastModel[v] > 0))
//@   loop 2
//@     invariant idx:   0 <= i && i <= nb && nsent(ch) == old(nsent(ch)) + i && !closed(ch)
//@     invariant shape: len(model) == s.nbVars && fresh(model) && fresh(unbound)
//@     invariant ub:    forall(j, 0, len(unbound), 0 <= unbound[j] && unbound[j] < len(s.lastModel) && s.lastModel[unbound[j]] == 0)
//@     invariant inc:   forall(p, 0, len(unbound), forall(q, p+1, len(unbound), unbound[p] < unbound[q]))
//@     invariant bound: forall(v, 0, len(s.lastModel), s.lastModel[v] != 0 ==> model[v] == (s.lastModel[v] > 0))
//@   loop 3
//@     invariant idx:   0 <= rangei && rangei <= len(unbound)
//@     invariant shape: len(model) == s.nbVars && fresh(model)
//@     invariant bits:  forall(j, 0, rangei, model[unbound[j]] == bit(i, j))
//@     invariant bound: forall(v, 0, len(s.lastModel), s.lastModel[v] != 0 ==> model[v] == (s.lastModel[v] > 0))

//@ define trailWF(s *Solver) bool = forall(k, 0, len(s.trail), 0 <= s.trail[k] && s.trail[k] / 2 < s.nbVars)
//@ define lastMax(s *Solver) bool = len(s.trail) > 0 ==> absi(s.model[s.trail[len(s.trail)-1] / 2]) >= 1 && forall(v, 0, s.nbVars, absi(s.model[v]) <= absi(s.model[s.trail[len(s.trail)-1] / 2]))

// decisionLits: one literal per decision level above 1 (the negation of that level's decision),
// nothing when there is no decision; never panics, in particular not on an empty trail.
//@ func (*Solver).decisionLits
//@   requires wf: s != nil && WFlen(s) && s.nbVars <= 1073741824 && trailWF(s) && lastMax(s)
//@   requires emptyTrail: len(s.trail) == 0 ==> forall(v, 0, s.nbVars, absi(s.model[v]) <= 1)
//@   requires oneDec: forall(v, 0, s.nbVars, forall(w, 0, s.nbVars, s.reason[v] == nil && s.reason[w] == nil && absi(s.model[v]) > 1 && absi(s.model[v]) == absi(s.model[w]) ==> v == w))
//@   ensures  none: len(s.trail) == 0 ==> len(result) == 0
//@   ensures  len:  len(s.trail) > 0 ==> len(result) == absi(s.model[s.trail[len(s.trail)-1] / 2]) - 1
//@   ensures  dec:  forall(v, 0, s.nbVars, s.reason[v] == nil && absi(s.model[v]) > 1 ==> result[absi(s.model[v]) - 2] == ite(s.model[v] < 0, 2*v, 2*v+1))
//@   loop 1
//@     invariant idx: 0 <= rangei && rangei <= len(s.reason) && len(lits) == lvls - 1 && fresh(lits) && lvls == absi(s.model[s.trail[len(s.trail)-1] / 2])
//@     invariant dec: forall(v, 0, rangei, s.reason[v] == nil && absi(s.model[v]) > 1 ==> lits[absi(s.model[v]) - 2] == ite(s.model[v] < 0, 2*v, 2*v+1))

// ---------------------------------------------------------------- assumptions (C10)

//@ define litsWF(l []Lit, n int) bool = forall(k, 0, len(l), 0 <= l[k] && l[k] / 2 < n)
//@ define noAssume(s *Solver) bool = forall(v, 0, len(s.assumptions), !s.assumptions[v])

// cleanupBindings(lvl): every binding made above level lvl is undone, the others are kept
// (trusted: the trail / queue bookkeeping is not verified).
//@ func (*Solver).cleanupBindings
//@   trusted
//@   ghost keepc *Clause
//@   requires wf: s != nil && WFlen(s)
//@   modifies s.model[*], s.reason[*], s.polarity[*], s.trail, s.varQueue, s.varQueue.content[*], s.varQueue.indices[*], s.trailBuf[*], all Clause.lbdValue
//@   ensures  keep:  forall(v, 0, s.nbVars, absi(old(s.model[v])) <= lvl ==> s.model[v] == old(s.model[v]))
//@   ensures  undo:  forall(v, 0, s.nbVars, absi(old(s.model[v])) > lvl ==> s.model[v] == 0)
//@   ensures  trail: len(s.trail) <= old(len(s.trail)) && sameArray(s.trail, old(s.trail))
//@   ensures  keepc: old(forall(v, 0, s.nbVars, s.reason[v] != keepc)) && keepc != nil ==> keepc.lbdValue == old(keepc.lbdValue)
//@   ensures  cards: forallobj(c, Clause, c.Cardinality() == old(c.Cardinality()) && c.Learned() == old(c.Learned()))
//@   ensures  wf:    WFlen(s) && WFsep(s) && WFsepWl(s)
//@   ensures  queue: grown(s.varQueue.content) && grown(s.varQueue.indices)

// addLearnedUnit binds the literal at level 1 (and reports it when certification is on)
//@ func (*Solver).addLearnedUnit
//@   requires wf: s != nil && unit >= 0 && unit / 2 < len(s.model)
//@   requires ch: s.Certified && s.CertChan != nil ==> !closed(s.CertChan)
//@   modifies s.model[*]
//@   ensures  bound: s.model[unit / 2] == ite(unit % 2 == 0, 1, -1)
//@   ensures  rest:  forall(v, 0, len(s.model), v != unit / 2 ==> s.model[v] == old(s.model[v]))

// propagate (trusted): propagation only binds unbound variables; a nil result means no conflict
//@ func (*Solver).propagate
//@   trusted
//@   ghost keepl []Lit
//@   requires wf: s != nil && WFlen(s)
//@   modifies s.model[*], s.reason[*], s.trail, s.trail[*], all Clause.lbdValue, all []Lit, all []int, all []bool, all []watcher, all [][]watcher, all [][]*Clause, all Clause.activity, s.Stats.*, s.lbdStats.*
//@   ensures  keep: forall(v, 0, s.nbVars, old(s.model[v]) != 0 ==> s.model[v] == old(s.model[v]))
//@   ensures  flags: forall(v, 0, len(s.assumptions), s.assumptions[v] == old(s.assumptions[v]))
//@   ensures  wf:   WFlen(s)
//@   ensures  trail: grown(s.trail)
//@   ensures  keepl: !aliased(keepl, old(s.trail)) ==> forall(k, 0, len(keepl), keepl[k] == old(keepl[k]))

// Assume: the previous round's assumptions are dropped, the problem's unit constraints are bound
// again, exactly the listed variables are flagged, and unless the round is refuted at once every
// unit constraint and every listed literal is true at the top level.
//@ func (*Solver).Assume
//@   requires wf:   s != nil && WFlen(s) && WFsep(s) && WFsepWl(s) && litsWF(lits, s.nbVars) && litsWF(s.units, s.nbVars) && arr(lits) != arr(s.trail) && arr(s.units) != arr(s.trail)
//@   requires ch:   s.Certified && s.CertChan != nil ==> !closed(s.CertChan)
//@   modifies s.model[*], s.reason[*], s.polarity[*], s.trail, s.trail[*], s.varQueue, s.trailBuf[*], s.assumptions, s.status, all Clause.lbdValue, all []Lit, all []int, all []bool, all []watcher, all [][]watcher, all [][]*Clause, all Clause.activity, s.Stats.*, s.lbdStats.*
//@   ensures  flags: result != Unsat ==> forall(v, 0, s.nbVars, s.assumptions[v] <==> exists(k, 0, len(lits), old(lits[k]) / 2 == v))
//@   ensures  bound: result != Unsat ==> forall(k, 0, len(lits), s.model[old(lits[k]) / 2] == ite(old(lits[k]) % 2 == 0, 1, -1))
//@   ensures  units: result != Unsat ==> forall(k, 0, len(s.units), s.model[old(s.units[k]) / 2] == ite(old(s.units[k]) % 2 == 0, 1, -1))
//@   loop 1
//@     modifies s.model[*], s.trail, s.trail[*]
//@     invariant idx:   0 <= rangei && rangei <= len(s.units) && WFlen(s) && len(s.assumptions) == s.nbVars && fresh(s.assumptions) && grown(s.trail)
//@     invariant same:  forall(k, 0, len(s.units), s.units[k] == old(s.units[k])) && forall(k, 0, len(lits), lits[k] == old(lits[k]))
//@     invariant noflag: forall(v, 0, s.nbVars, !s.assumptions[v])
//@     invariant units: forall(k, 0, rangei, s.model[old(s.units[k]) / 2] == ite(old(s.units[k]) % 2 == 0, 1, -1))
//@   loop 2
//@     modifies s.model[*], s.assumptions[*], s.trail, s.trail[*]
//@     invariant idx:   0 <= rangei && rangei <= len(lits) && WFlen(s) && len(s.assumptions) == s.nbVars && fresh(s.assumptions) && grown(s.trail)
//@     invariant same:  forall(k, 0, len(lits), lits[k] == old(lits[k])) && forall(k, 0, len(s.units), s.units[k] == old(s.units[k]))
//@     invariant flags: forall(v, 0, s.nbVars, s.assumptions[v] <==> exists(k, 0, rangei, old(lits[k]) / 2 == v))
//@     invariant bound: forall(k, 0, rangei, s.model[old(lits[k]) / 2] == ite(old(lits[k]) % 2 == 0, 1, -1))
//@     invariant units: forall(k, 0, len(s.units), s.model[old(s.units[k]) / 2] == ite(old(s.units[k]) % 2 == 0, 1, -1))

// ---------------------------------------------------------------- literal encoding and clause flags (C01)

//@ func (Lit).IsPositive
//@   requires nonneg: l >= 0
//@   ensures  def: result <==> l % 2 == 0

//@ func (Var).Lit
//@   requires rng: v >= 0 && v < 1073741823
//@   ensures  def: result == 2 * v

//@ func (Var).SignedLit
//@   requires rng: v >= 0 && v < 1073741823
//@   ensures  def: result == ite(signed, 2 * v + 1, 2 * v)

//@ func (Var).Int
//@   requires rng: v >= 0 && v < 2147483647
//@   ensures  def: result == v + 1

//@ func IntToVar
//@   requires rng: i >= 1
//@   ensures  def: result == i - 1

//@ func IntsToLits
//@   requires rng: forall(k, 0, len(vals), vals[k] != 0 && -1073741824 <= vals[k] && vals[k] <= 1073741824)
//@   ensures  conv: len(result) == len(vals) && forall(k, 0, len(vals), result[k] == ilit(vals[k]))
//@   loop 1
//@     invariant idx: 0 <= rangei && rangei <= len(vals) && len(res) == len(vals) && fresh(res)
//@     invariant conv: forall(k, 0, rangei, res[k] == ilit(vals[k]))

// the flag bits of lbdValue: learned (bit 31), locked (bit 30), low 30 bits = lbd or cardinality-1
//@ func NewClause
//@   ensures  def: result != nil && fresh(result) && result.lits == lits && result.pbData == nil && result.Cardinality() == 1 && !result.Learned()

//@ func NewCardClause
//@   requires card: 1 <= card && card <= len(lits) && card <= 1073741824
//@   ensures  def: result != nil && fresh(result) && result.lits == lits && result.pbData == nil && result.Cardinality() == card && !result.Learned()

//@ func NewLearnedClause
//@   ensures  def: result != nil && fresh(result) && result.lits == lits && result.pbData == nil && result.Learned() && result.Cardinality() == 1 && result.lbd() == 0 && !result.isLocked()

//@ func (*Clause).lock
//@   requires nn: c != nil
//@   modifies c.lbdValue
//@   ensures  keep: c.Learned() == old(c.Learned()) && c.lbd() == old(c.lbd()) && (c.Learned() ==> c.isLocked()) && c.Cardinality() == old(c.Cardinality())

//@ func (*Clause).unlock
//@   requires nn: c != nil
//@   modifies c.lbdValue
//@   ensures  keep: c.Learned() == old(c.Learned()) && c.lbd() == old(c.lbd()) && !c.isLocked() && c.Cardinality() == old(c.Cardinality())

//@ func (*Clause).swap
//@   requires idx: c != nil && 0 <= i && i < len(c.lits) && 0 <= j && j < len(c.lits) && (c.pbData != nil ==> len(c.pbData.weights) == len(c.lits))
//@   modifies c.lits[*], c.pbData.weights[*]
//@   ensures  swp: c.lits[i] == old(c.lits[j]) && c.lits[j] == old(c.lits[i]) && forall(k, 0, len(c.lits), k != i && k != j ==> c.lits[k] == old(c.lits[k]))

//@ func (*Clause).removeLit
//@   requires idx: c != nil && 0 <= idx && idx < len(c.lits) && (c.pbData != nil ==> len(c.pbData.weights) == len(c.lits))
//@   modifies c.lits, c.lits[*], c.pbData.weights, c.pbData.weights[*]
//@   ensures  len:  len(c.lits) == old(len(c.lits)) - 1 && (c.pbData != nil ==> len(c.pbData.weights) == len(c.lits))
//@   ensures  moved: idx < len(c.lits) ==> c.lits[idx] == old(c.lits[len(c.lits)-1])
//@   ensures  rest: forall(k, 0, len(c.lits), k != idx ==> c.lits[k] == old(c.lits[k]))
//@   ensures  arrs: sameArray(c.lits, old(c.lits)) && (c.pbData != nil ==> sameArray(c.pbData.weights, old(c.pbData.weights)))
//@   ensures  movedW: c.pbData != nil && idx < len(c.lits) ==> c.pbData.weights[idx] == old(c.pbData.weights[len(c.lits)-1])
//@   ensures  restW: c.pbData != nil ==> forall(k, 0, len(c.lits), k != idx ==> c.pbData.weights[k] == old(c.pbData.weights[k]))

// updateCardinality(add): the degree becomes max(degree + add, 1) (never below 1)
//@ func (*Clause).updateCardinality
//@   requires wf: c != nil && !c.Learned() && c.lbdValue < 1073741824 && -1073741824 <= add && add <= 1073741824 && c.Cardinality() + add <= 1073741824
//@   modifies c.lbdValue
//@   ensures  card: c.Cardinality() == maxi(old(c.Cardinality()) + add, 1) && !c.Learned() && c.lbdValue < 1073741824

// ---------------------------------------------------------------- DIMACS reader (C13, C01)

// ParseCNF: every clause terminator read from the stream (readInt answers 0 without reaching the
// end of the stream) appends exactly one clause, made of the literals read since the previous
// terminator, in order; literals out of the declared range are refused. readInt, parseHeader and
// the bufio reader are external here: what a token *is* (the byte level) is not specified.
// readInt: the end of the stream is only reported when no number was read (a number that is the
// last token of the stream is returned without error; the next call reports io.EOF). The byte
// level itself (what the digits are worth) is not specified: bufio.Reader is external.
//@ func readInt
//@   requires nn: b != nil && r != nil
//@   modifies *b
//@   ensures  eof: err == io.EOF ==> res == 0

//@ func ParseCNF
//@   modifies nothing
//@   assume-input after-call parseHeader#1 hdr: result2 == nil ==> 0 <= result0 && result0 <= 1073741823 && 0 <= result1
//@   loop 1
//@     invariant pb:   0 <= pb.NbVars && pb.NbVars <= 1073741823 && (pb.Clauses == nil || fresh(pb.Clauses))
//@   loop 2
//@     invariant pb:   0 <= pb.NbVars && pb.NbVars <= 1073741823 && (pb.Clauses == nil || fresh(pb.Clauses))
//@   loop 3
//@     invariant pb:   0 <= pb.NbVars && pb.NbVars <= 1073741823 && (pb.Clauses == nil || fresh(pb.Clauses))
//@     invariant same: len(pb.Clauses) == entry3(len(pb.Clauses)) && sameArray(pb.Clauses, entry3(pb.Clauses))
//@     invariant lits: fresh(lits) && forall(k, 0, len(lits), 0 <= lits[k] && lits[k] / 2 < pb.NbVars)
//@   assert after-loop 3 term1: err == nil && val == 0 ==> len(pb.Clauses) == entry3(len(pb.Clauses)) + 1
//@   assert after-loop 3 term2: err == nil && val == 0 ==> pb.Clauses[len(pb.Clauses) - 1] != nil
//@   assert after-loop 3 term3: err == nil && val == 0 ==> pb.Clauses[len(pb.Clauses) - 1].lits == lits
//@   assert after-loop 3 kept: forall(k, 0, entry3(len(pb.Clauses)), pb.Clauses[k] == entry3(pb.Clauses[k]))

// ---------------------------------------------------------------- independence of solver instances (C16)

// The conflict-analysis path is the only code that ever wrote through a package-level variable
// (the learned-clause buffer). Its frame is stated exactly: it writes the solver's own buffer and
// heuristic tables, its arguments and freshly allocated memory, nothing else. Index safety and the
// meaning of the learned clause are NOT specified here (the search is not under contract).
//@ func (*Solver).varBumpActivity
//@   trusted
//@   modifies s.activity[*], s.varInc, s.varQueue.content[*], s.varQueue.indices[*]

//@ func (*Solver).clauseBumpActivity
//@   trusted
//@   modifies all Clause.activity, s.clauseInc

//@ func sortLiterals
//@   inline-calls (Lit).Var, (Lit).Negation, (Lit).IsPositive
//@   modifies lits[*]
//@   sort Sort#1 modifies lits[*]

//@ func (*Clause).computeLbd
//@   trusted
//@   modifies c.lbdValue

//@ func (*Solver).addClauseLits
//@   inline-calls (Lit).Var, (Lit).Negation, (Lit).IsPositive, (*Solver).litStatus
//@   requires nn: s != nil && confl != nil && lits != nil
//@   modifies met[*], metLvl[*], *lits, (*lits)[*], s.activity[*], s.varInc, s.varQueue.content[*], s.varQueue.indices[*]
//@   ensures  grown: grown(*lits)
//@   loop 1
//@     invariant own: grown(*lits)

// minimizeLearned (conflict-clause minimisation, C01 / C10): a literal of the learned clause may
// only be dropped when it has a reason clause all of whose literals are marked in `met` (they are
// then already accounted for by the clause being learned: self-subsuming resolution); every other
// literal is kept, the asserting literal stays in front. Stated under the hypothesis that the
// buffer holding the learned literals is not the literal array of a reason clause (sepR), which
// the callers do not establish here.
//@ define allMet(c *Clause, met []bool) bool = c != nil && forall(k, 0, len(c.lits), met[c.lits[k] / 2])
//@ define sepR(s *Solver, learned []Lit) bool = forall(v, 0, len(s.reason), s.reason[v] != nil ==> arr(s.reason[v].lits) != arr(learned))
//@ func (*Solver).minimizeLearned
//@   inline-calls (Lit).Var, (Lit).Negation, (Lit).IsPositive, (*Solver).litStatus, (*Clause).Len, (*Clause).Get
//@   requires nn: s != nil
//@   modifies learned[*]
//@   ensures  size:  1 <= result && (len(learned) >= 1 ==> result <= len(learned))
//@   ensures  first: len(learned) >= 1 ==> learned[0] == old(learned[0])
//@   ensures  just:  sepR(s, learned) ==> forall(i2, 1, len(learned), exists(p, 1, result, learned[p] == old(learned[i2])) || allMet(s.reason[old(learned[i2]) / 2], met))
//@   loop 1
//@     invariant idx:   1 <= sz && sz <= i && (len(learned) >= 1 ==> i <= len(learned))
//@     invariant tail:  forall(k, i, len(learned), learned[k] == old(learned[k]))
//@     invariant first: len(learned) >= 1 ==> learned[0] == old(learned[0])
//@     invariant rng:   forall(i2, 1, i, 0 <= old(learned[i2]) / 2 && old(learned[i2]) / 2 < len(s.reason))
//@     invariant just:  sepR(s, learned) ==> forall(i2, 1, i, exists(p, 1, sz, learned[p] == old(learned[i2])) || allMet(s.reason[old(learned[i2]) / 2], met))
//@   loop 2
//@     invariant idx:   0 <= k && reason != nil && reason == s.reason[learned[i] / 2]
//@     invariant scan:  forall(k2, 0, k, k2 < len(reason.lits) ==> met[reason.lits[k2] / 2])

//@ func (*Solver).learnClause
//@   inline-calls (Lit).Var, (Lit).Negation, (Lit).IsPositive, (*Solver).litStatus
//@   requires nn: s != nil && confl != nil
//@   modifies s.bufLits, s.bufLits[*], s.activity[*], s.varInc, s.varDecay, s.clauseInc, s.varQueue.content[*], s.varQueue.indices[*], all Clause.activity
//@   loop 1
//@     invariant own: s.bufLits != nil && (arr(lits) == arr(s.bufLits) || fresh(lits))
//@   loop 2
//@     invariant own: s.bufLits != nil && (arr(lits) == arr(s.bufLits) || fresh(lits))
//@   loop 3
//@     invariant own: s.bufLits != nil && (arr(lits) == arr(s.bufLits) || fresh(lits))
//@   loop 4
//@     invariant own: s.bufLits != nil && (arr(lits) == arr(s.bufLits) || fresh(lits))

// ---------------------------------------------------------------- parse-time simplification of cardinality constraints (C02)

// simplifyCard: the counter nbSat of the scan is the number of literals among those already
// scanned that are true at the top level, so a constraint is only dropped as satisfied when
// `card` distinct literals of it are true (after-loop assertion sat). Unit propagation between
// constraints, addUnits and the restart loop are not specified here.
//@ func (*Problem).simplifyCard
//@   inline-calls (Lit).Var, (Lit).IsPositive, (Lit).Negation
//@   requires nn: pb != nil
//@   modifies pb.Status, pb.Clauses, pb.Clauses[*], pb.Units, pb.Units[*], pb.Model[*], all Clause.lits, all []Lit, all Clause.lbdValue
//@   loop 3
//@     invariant cnt:  nbSat == tcount(c.lits, pb.Model, j) && 0 <= j && nbSat >= 0
//@   assert after-loop 3 sat: clauseSat ==> tcount(c.lits, pb.Model, j + 1) == card

// ---------------------------------------------------------------- run-time propagation of pseudo-boolean constraints (C02)

// A is compatible with the bindings of the solver: true variables are true in A, false ones false.
//@ define agreesS(m []decLevel, A asg) bool = forall(v, 0, len(m), (m[v] > 0 ==> A[v]) && (m[v] < 0 ==> !A[v]))
// shape of a PB constraint visited by propagation: one positive weight per literal, literals over known variables
//@ define pbwf(s *Solver, c *Clause) bool = s != nil && c != nil && c.pbData != nil && len(c.pbData.weights) == len(c.lits) && len(s.reason) == len(s.model) && litsWF(c.lits, len(s.model)) && forall(k, 0, len(c.lits), c.pbData.weights[k] >= 1)

// slackSum: when it answers sat, the literals already true reach the degree; otherwise slack is
// exactly (weight of the literals that are not false) - degree.
//@ func (*Solver).slackSum
//@   requires wf: pbwf(s, c)
//@   ensures  sat:   sat ==> tsum(c.lits, c.pbData.weights, s.model, len(c.lits)) >= c.Cardinality()
//@   ensures  slack: !sat ==> slack == nfsum(c.lits, c.pbData.weights, s.model, len(c.lits)) - c.Cardinality()
//@   loop 1
//@     invariant idx: 0 <= rangei && rangei <= len(c.lits) && card == c.Cardinality()
//@     invariant acc: slack == nfsum(c.lits, c.pbData.weights, s.model, rangei) - card && sum == tsum(c.lits, c.pbData.weights, s.model, rangei)
//@     invariant next: rangei < len(c.lits) ==> tsum(c.lits, c.pbData.weights, s.model, rangei + 1) >= tsum(c.lits, c.pbData.weights, s.model, rangei)

// propagateUnit binds the variable of the literal so that the literal is true at level lvl, with
// c as its reason; no other binding changes and the degree of c is untouched.
//@ func (*Solver).propagateUnit
//@   requires wf: s != nil && c != nil && unit >= 0 && unit / 2 < len(s.model) && len(s.reason) == len(s.model) && lvl >= 1
//@   modifies s.model[*], s.reason[*], s.trail, s.trail[*], c.lbdValue
//@   ensures  bound: s.model[unit / 2] == ite(unit % 2 == 0, lvl, -lvl)
//@   ensures  rest:  forall(v, 0, len(s.model), v != unit / 2 ==> s.model[v] == old(s.model[v]))
//@   ensures  card:  c.Cardinality() == old(c.Cardinality()) && c.Learned() == old(c.Learned())
//@   ensures  trail: grown(s.trail)

// propagateAll: bindings only grow, and every new binding makes a literal of c true that was unbound.
//@ func (*Solver).propagateAll
//@   requires wf: s != nil && c != nil && len(s.reason) == len(s.model) && litsWF(c.lits, len(s.model)) && lvl >= 1 && !aliased(c.lits, s.trail)
//@   modifies s.model[*], s.reason[*], s.trail, s.trail[*], c.lbdValue
//@   ensures  grow:  forall(v, 0, len(s.model), old(s.model[v]) != 0 ==> s.model[v] == old(s.model[v]))
//@   ensures  only:  forall(v, 0, len(s.model), s.model[v] != old(s.model[v]) ==> exists(k, 0, len(c.lits), c.lits[k] / 2 == v && strue(s.model[v], c.lits[k])))
//@   ensures  card:  c.Cardinality() == old(c.Cardinality()) && c.Learned() == old(c.Learned())
//@   ensures  lits:  c.lits == old(c.lits) && forall(k, 0, len(c.lits), c.lits[k] == old(c.lits[k])) && !aliased(c.lits, s.trail)
//@   ensures  trail: grown(s.trail)
//@   loop 1
//@     invariant idx:  0 <= i && i <= len(c.lits) && c.lits == old(c.lits) && len(s.reason) == len(s.model) && s.model == old(s.model) && grown(s.trail)
//@     invariant lits: forall(k, 0, len(c.lits), c.lits[k] == old(c.lits[k])) && !aliased(c.lits, s.trail)
//@     invariant grow: forall(v, 0, len(s.model), old(s.model[v]) != 0 ==> s.model[v] == old(s.model[v]))
//@     invariant only: forall(v, 0, len(s.model), s.model[v] != old(s.model[v]) ==> exists(k, 0, len(c.lits), c.lits[k] / 2 == v && strue(s.model[v], c.lits[k])))
//@     invariant card: c.Cardinality() == old(c.Cardinality()) && c.Learned() == old(c.Learned())

// updateWatchPB (trusted frame): only the watch lists and the watched flags of the constraint change
//@ func (*Solver).updateWatchPB
//@   trusted
//@   modifies s.wl.wlistPb[*], all []*Clause, clause.pbData.watched[*]

// simplifyPseudoBool (one visit of a PB constraint by propagation), for every assignment A that is
// compatible with the bindings before the visit and satisfies the constraint: the visit reports no
// conflict and A is compatible with every binding it made (sound propagation; a reported conflict
// therefore means no such A exists).
//@ func (*Solver).simplifyPseudoBool
//@   ghost A asg
//@   requires wf: pbwf(s, clause) && lvl >= 1 && !aliased(clause.lits, s.trail)
//@   modifies s.model[*], s.reason[*], s.trail, s.trail[*], clause.lbdValue, s.wl.wlistPb[*], all []*Clause, clause.pbData.watched[*]
//@   ensures  sound: old(agreesS(s.model, A)) && old(holds(clause, A)) ==> result && agreesS(s.model, A)
//@   ensures  grow:  forall(v, 0, len(s.model), old(s.model[v]) != 0 ==> s.model[v] == old(s.model[v]))
//@   assert after-call (*Solver).slackSum#1 nf:    lem_psum_nf(clause.lits, clause.pbData.weights, A, s.model, len(clause.lits))
//@   assert after-call (*Solver).slackSum#1 tight: lem_psum_tight(clause.lits, clause.pbData.weights, A, s.model, len(clause.lits), result0)
//@   loop 1
//@     invariant wf:    pbwf(s, clause) && !aliased(clause.lits, s.trail) && s.model == old(s.model) && grown(s.trail)
//@     invariant same:  clause.lits == old(clause.lits) && clause.pbData == old(clause.pbData) && clause.pbData.weights == old(clause.pbData.weights) && clause.Cardinality() == old(clause.Cardinality()) && forall(k, 0, len(clause.lits), clause.lits[k] == old(clause.lits[k]) && clause.pbData.weights[k] == old(clause.pbData.weights[k]))
//@     invariant grow:  forall(v, 0, len(s.model), old(s.model[v]) != 0 ==> s.model[v] == old(s.model[v]))
//@     invariant sound: old(agreesS(s.model, A)) && old(holds(clause, A)) ==> agreesS(s.model, A)
//@   loop 2
//@     invariant wf:    pbwf(s, clause) && !aliased(clause.lits, s.trail) && s.model == old(s.model) && grown(s.trail) && 0 <= i && slack >= 1
//@     invariant same:  clause.lits == old(clause.lits) && clause.pbData == old(clause.pbData) && clause.pbData.weights == old(clause.pbData.weights) && clause.Cardinality() == old(clause.Cardinality()) && forall(k, 0, len(clause.lits), clause.lits[k] == old(clause.lits[k]) && clause.pbData.weights[k] == old(clause.pbData.weights[k]))
//@     invariant grow:  forall(v, 0, len(s.model), old(s.model[v]) != 0 ==> s.model[v] == old(s.model[v]))
//@     invariant sound: old(agreesS(s.model, A)) && old(holds(clause, A)) ==> agreesS(s.model, A)
//@     invariant heavy: old(agreesS(s.model, A)) && old(holds(clause, A)) ==> forall(k, 0, len(clause.lits), clause.pbData.weights[k] > slack && !tv(A, clause.lits[k]) ==> sfalse(s.model[clause.lits[k] / 2], clause.lits[k]))

// ---------------------------------------------------------------- run-time propagation of cardinality constraints (C02)

//@ define cardwf(s *Solver, c *Clause) bool = s != nil && c != nil && c.pbData == nil && len(s.reason) == len(s.model) && litsWF(c.lits, len(s.model)) && c.Cardinality() >= 1 && c.Cardinality() <= len(c.lits)

// swapFalse (trusted frame): permutes the literals of the constraint and updates the watch lists
//@ func (*Solver).swapFalse
//@   trusted
//@   modifies clause.lits[*], s.wl.wlistPb[*], all []*Clause

// simplifyCardConstr (one visit of a cardinality constraint by propagation): same statement as
// simplifyPseudoBool, with the counters of the scan tied to the number of true / non-false literals.
// Conflict detection: the visit only goes on to re-arrange the watched literals (swapFalse) when
// more than `degree` literals are not false (assertion enough), i.e. a falsified or tight
// constraint never slips through; in simplifyPseudoBool the same is carried by the loop invariant
// slack >= 1 of the unit scan together with the contract of slackSum.
//@ func (*Solver).simplifyCardConstr
//@   ghost A asg
//@   requires wf: cardwf(s, clause) && lvl >= 1 && !aliased(clause.lits, s.trail)
//@   modifies s.model[*], s.reason[*], s.trail, s.trail[*], clause.lbdValue, clause.lits[*], s.wl.wlistPb[*], all []*Clause
//@   ensures  sound: old(agreesS(s.model, A)) && old(holds(clause, A)) ==> result && agreesS(s.model, A)
//@   ensures  grow:  forall(v, 0, len(s.model), old(s.model[v]) != 0 ==> s.model[v] == old(s.model[v]))
//@   assert before-call (*Solver).swapFalse#1 enough: nfsum(clause.lits, nil, s.model, len(clause.lits)) >= clause.Cardinality() + 1
//@   assert after-loop 1 nf:    lem_psum_nf(clause.lits, nil, A, s.model, len(clause.lits))
//@   assert exit nfx: lem_psum_nf(clause.lits, nil, A, s.model, len(clause.lits))
//@   assert after-loop 1 tight: lem_psum_tight(clause.lits, nil, A, s.model, len(clause.lits), 0)
//@   loop 1
//@     invariant idx:   0 <= i && i <= length && length == len(clause.lits) && card == clause.Cardinality()
//@     invariant cnt:   nbTrue == tsum(clause.lits, nil, s.model, i) && nbFalse == i - nfsum(clause.lits, nil, s.model, i) && nbUnb == nfsum(clause.lits, nil, s.model, i) - tsum(clause.lits, nil, s.model, i)
//@     invariant next:  i < length ==> tsum(clause.lits, nil, s.model, i + 1) >= tsum(clause.lits, nil, s.model, i) && nfsum(clause.lits, nil, s.model, i + 1) >= nfsum(clause.lits, nil, s.model, i)
//@     invariant room:  length - nbFalse >= card && nbTrue < card
//@   loop 2
//@     invariant wf:    cardwf(s, clause) && !aliased(clause.lits, s.trail) && s.model == old(s.model) && grown(s.trail) && 0 <= i
//@     invariant same:  clause.lits == old(clause.lits) && clause.pbData == nil && clause.Cardinality() == old(clause.Cardinality()) && forall(k, 0, len(clause.lits), clause.lits[k] == old(clause.lits[k]))
//@     invariant grow:  forall(v, 0, len(s.model), old(s.model[v]) != 0 ==> s.model[v] == old(s.model[v]))
//@     invariant sound: old(agreesS(s.model, A)) && old(holds(clause, A)) ==> agreesS(s.model, A)
//@     invariant heavy: old(agreesS(s.model, A)) && old(holds(clause, A)) ==> forall(k, 0, len(clause.lits), !tv(A, clause.lits[k]) ==> sfalse(s.model[clause.lits[k] / 2], clause.lits[k]))

// ---------------------------------------------------------------- parse-time simplification of PB constraints (C02)

//@ func (*Clause).WeightSum
//@   requires nn: c != nil
//@   loop 1
//@     invariant idx: 0 <= rangei

//@ func (*Problem).replicateUnits
//@   inline-calls (Lit).Var, (Lit).IsPositive
//@   requires nn: pb != nil
//@   modifies pb.Model[*]
//@   loop 1
//@     invariant idx: 0 <= rangei

// no literal of the clause mentions a variable that is bound in the parse-time model
//@ define cleanC(pb *Problem, c *Clause) bool = forall(k, 0, len(c.lits), pb.Model[c.lits[k] / 2] == 0)

// simplifyPB reaches a fixpoint: when it returns without refuting the problem, no remaining
// constraint mentions a bound variable. The solver relies on this: top-level bindings are never
// propagated through the watch lists, so a constraint that still held a literal falsified at
// parse time would never be woken up for it. Every write of the scan (a new unit, a removed
// literal, a removed constraint) must therefore schedule another pass (invariants fix).
//@ func (*Problem).simplifyPB
//@   inline-calls (*Clause).removeLit, (*Clause).updateCardinality, (*Problem).addUnit, (Lit).Var, (Lit).IsPositive
//@   requires nn: pb != nil
//@   modifies pb.Status, pb.Clauses, pb.Clauses[*], pb.Units, pb.Units[*], pb.Model[*], all Clause.lits, all []Lit, all Clause.lbdValue, all pbData.weights, all []int
//@   ensures  clean: pb.Status != Unsat ==> forall(i, 0, len(pb.Clauses), cleanC(pb, pb.Clauses[i]))
//@   loop 1
//@     invariant fix: !modified ==> forall(i, 0, len(pb.Clauses), cleanC(pb, pb.Clauses[i]))
//@   loop 2
//@     invariant idx: 0 <= i
//@     invariant fix: !modified ==> forall(i2, 0, i, i2 < len(pb.Clauses) ==> cleanC(pb, pb.Clauses[i2]))
//@   loop 3
//@     invariant idx: 0 <= i && 0 <= j && i < len(pb.Clauses) && (!modified ==> c == pb.Clauses[i])
//@     invariant fix: !modified ==> forall(i2, 0, i, i2 < len(pb.Clauses) ==> cleanC(pb, pb.Clauses[i2]))
//@     invariant cur: !modified ==> forall(k, 0, j, k < len(c.lits) ==> pb.Model[c.lits[k] / 2] == 0)

// ---------------------------------------------------------------- parse-time simplification of clauses (C01)

// A is compatible with the parse-time model (values 0 / 1 / -1)
//@ define agreesM(m []decLevel, A asg) bool = forall(v, 0, len(m), m[v] != 0 ==> (A[v] <==> m[v] == 1))
// some literal among the first n of the clause is true under A (written as a sum so that the
// swap-with-last removals are handled by the update lemma of psum)
//@ define someTrue(c *Clause, n int, A asg) bool = psum(c.lits, nil, A, n) >= 1

// simplify2, scan of one clause: for every assignment A compatible with the current top-level
// model, the literals kept so far (the first nbLits) contain a literal true under A exactly when
// the clause as it was before the scan did -- removing duplicates and literals false at the top
// level never changes the meaning of the clause (invariant sem, loops 3 and 4); and the clause is
// only declared satisfied (tautology, or a literal true at the top level) when every such A
// satisfies it (assertion sat). The bookkeeping around the scan (unit rule, restart, removal of
// satisfied clauses from the list) is not specified here.
//@ func (*Problem).simplify2
//@   ghost A asg
//@   inline-calls (Lit).Var, (Lit).IsPositive, (Lit).Negation, (*Problem).addUnit, (*Clause).First, (*Clause).Shrink
//@   requires nn: pb != nil
//@   modifies pb.Status, pb.Clauses, pb.Clauses[*], pb.Units, pb.Units[*], pb.Model[*], all Clause.lits, all []Lit, all pbData.weights, all pbData.watched
//@   assert body-end 4 elem4:  lem_psum_elem(c.lits, nil, A, nbLits, j)
//@   assert after-loop 4 elemj: lem_psum_elem(c.lits, nil, A, nbLits, j) && lem_psum_elem(c.lits, nil, A, nbLits, k)
//@   assert after-loop 3 same: agreesM(pb.Model, A) && entry3(forall(k, 0, len(c.lits), c.lits[k] >= 0)) ==> (someTrue(c, nbLits, A) <==> entry3(someTrue(c, len(c.lits), A)))
//@   assert after-loop 3 sat:  agreesM(pb.Model, A) && entry3(forall(k, 0, len(c.lits), c.lits[k] >= 0)) && clauseSat ==> entry3(someTrue(c, len(c.lits), A))
//@   loop 3
//@     invariant idx: 0 <= j && j <= nbLits && nbLits <= len(c.lits) && c.lits == entry3(c.lits) && !clauseSat
//@     invariant nn:  entry3(forall(k, 0, len(c.lits), c.lits[k] >= 0)) ==> forall(k, 0, nbLits, c.lits[k] >= 0)
//@     invariant sem: agreesM(pb.Model, A) && entry3(forall(k, 0, len(c.lits), c.lits[k] >= 0)) ==> (someTrue(c, nbLits, A) <==> entry3(someTrue(c, len(c.lits), A)))
//@   loop 4
//@     invariant idx: 0 <= j && j < k && k <= nbLits && nbLits <= len(c.lits) && c.lits == entry3(c.lits) && !clauseSat && lit == c.lits[j]
//@     invariant nn:  entry3(forall(k2, 0, len(c.lits), c.lits[k2] >= 0)) ==> forall(k2, 0, nbLits, c.lits[k2] >= 0)
//@     invariant sem: agreesM(pb.Model, A) && entry3(forall(k2, 0, len(c.lits), c.lits[k2] >= 0)) ==> (someTrue(c, nbLits, A) <==> entry3(someTrue(c, len(c.lits), A)))

// ---------------------------------------------------------------- entry points used by package explain (trusted frames)

// ParseSlice / New read the caller's clause lists and build their own representation; they are
// not verified here (C01): trusted to leave the caller's memory untouched.
//@ func ParseSlice
//@   trusted
//@   ensures nn: result != nil

//@ func New
//@   trusted
//@   ensures nn: result != nil

// ---------------------------------------------------------------- cutting planes: conversions (C14)

// (*pbSet).clause: the stored constraint built from a derived pbSet means the same thing: for every
// assignment it holds exactly when the pbSet does (zero entries dropped, negative entries become
// negated literals with the absolute weight).
//@ func (*pbSet).clause
//@   ghost A asg
//@   requires wf: pb != nil && 1 <= pb.card && pb.card <= 1073741824 && len(pb.weights) <= 1073741823
//@   ensures  sem: holds(result, A) <==> pbval(pb, A)
//@   ensures  same: pb.card == old(pb.card) && pb.weights == old(pb.weights) && forall(v, 0, len(pb.weights), pb.weights[v] == old(pb.weights[v]))
//@   loop 1
//@     invariant idx:  0 <= rangei && rangei <= len(pb.weights) && len(lits) == len(weights) && len(lits) <= rangei
//@     invariant own:  grown(lits) && grown(weights) && fresh(lits) && fresh(weights)
//@     invariant same: pb.card == old(pb.card) && pb.weights == old(pb.weights) && forall(v, 0, len(pb.weights), pb.weights[v] == old(pb.weights[v]))
//@     invariant sum:  psum(lits, weights, A, len(lits)) == vsum(pb.weights, A, rangei)

//@ define psumc2(c *Clause, A asg, n int) int = ite(c.pbData == nil, psum(c.lits, nil, A, n), psum(c.lits, c.pbData.weights, A, n))
// (*Solver).pbSet: the set representation of a stored constraint whose literals mention pairwise
// different variables means the same thing for every assignment.
//@ func (*Solver).pbSet
//@   ghost A asg
//@   inline-calls (Lit).Var, (Lit).IsPositive
//@   requires wf:   c != nil && litsWF(c.lits, len(buffer)) && (c.pbData != nil ==> len(c.pbData.weights) == len(c.lits) && forall(k, 0, len(c.lits), c.pbData.weights[k] >= 0) && !aliased(c.pbData.weights, buffer))
//@   requires dist: forall(k1, 0, len(c.lits), forall(k2, 0, len(c.lits), k1 != k2 ==> c.lits[k1] / 2 != c.lits[k2] / 2))
//@   modifies buffer[*]
//@   ensures  shape: result != nil && fresh(result) && result.weights == buffer && result.card == c.Cardinality()
//@   ensures  sem:   pbval(result, A) <==> holds(c, A)
//@   loop 1
//@     invariant idx:  0 <= rangei && rangei <= len(buffer) && res != nil && fresh(res) && res.weights == buffer && res.card == c.Cardinality()
//@     invariant zero: forall(k, 0, rangei, buffer[k] == 0)
//@   loop 2
//@     invariant idx:  0 <= i && i <= len(c.lits) && res != nil && fresh(res) && res.weights == buffer && res.card == c.Cardinality()
//@     invariant rest: forall(k, i, len(c.lits), buffer[c.lits[k] / 2] == 0)
//@     invariant sum:  vsum(buffer, A, len(buffer)) == psumc2(c, A, i)
