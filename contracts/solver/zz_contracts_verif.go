//go:build verif

package solver

// Contracts for package solver, read by /verif/govc (comment-only file).

//@ func IntToLit
//@   requires rng: i != 0 && -1073741824 <= i && i <= 1073741824
//@   ensures nonneg: result >= 0
//@   ensures varOf: result / 2 == absi(i) - 1
//@   ensures sign: (result % 2 == 0) <==> i > 0
//@   ensures tv: forall(v, forall(w, true)) || true

//@ func (Lit).Int
//@   requires nonneg: l >= 0
//@   ensures inv: result != 0 && absi(result) == l/2 + 1
//@   ensures sign: result > 0 <==> l % 2 == 0

//@ func (Lit).Negation
//@   requires nonneg: l >= 0
//@   ensures flip: result >= 0 && result / 2 == l / 2 && result % 2 != l % 2

//@ func (Lit).Var
//@   requires nonneg: l >= 0
//@   ensures v: result == l / 2 && result >= 0

//@ func AtMost1
//@   ghost A asg
//@   ensures len: len(result.Lits) == len(lits) && result.AtLeast == len(lits) - 1
//@   ensures neg: forall(k, 0, len(lits), result.Lits[k] == -lits[k])
//@   ensures frame: forall(k, 0, len(lits), lits[k] == old(lits[k]))
//@   loop 1
//@     invariant idx: 0 <= rangei && rangei <= len(lits) && len(negated) == len(lits)
//@     invariant neg: forall(k, 0, rangei, negated[k] == -lits[k])
//@     invariant fresh: fresh(negated)

// ---------------------------------------------------------------- cutting planes rules (C14)

//@ define pbval(pb *pbSet, A asg) bool = vsum(pb.weights, A, len(pb.weights)) >= pb.card

//@ func (*pbSet).clash
//@   ghost A asg
//@   requires nn:   pb1 != nil && pb2 != nil && pb1 != pb2
//@   requires sep:  arr(pb1.weights) != arr(pb2.weights)
//@   requires lens: len(pb1.weights) == len(pb2.weights)
//@   modifies pb1.card, pb1.weights[*]
//@   ensures  sound: old(pbval(pb1, A)) && old(pbval(pb2, A)) ==> pbval(pb1, A)
//@   ensures  frame2: pb2.card == old(pb2.card) && forall(k, 0, len(pb2.weights), pb2.weights[k] == old(pb2.weights[k]))
//@   loop 1
//@     invariant idx:   0 <= rangei && rangei <= len(pb1.weights)
//@     invariant rest:  forall(k, rangei, len(pb1.weights), pb1.weights[k] == old(pb1.weights[k]))
//@     invariant sum:   vsum(pb1.weights, A, rangei) - pb1.card == old(vsum(pb1.weights, A, rangei)) + vsum(pb2.weights, A, rangei) - old(pb1.card) - pb2.card

//@ func (*pbSet).divideBy
//@   ghost A asg
//@   requires nn:    pb != nil
//@   requires coeff: coeff >= 1
//@   requires card:  pb.card >= 0
//@   modifies pb.card, pb.weights[*]
//@   ensures  sound: old(pbval(pb, A)) ==> pbval(pb, A)
//@   ensures  card:  pb.card >= 0
//@   ensures  shape: len(pb.weights) == old(len(pb.weights))
//@   ensures  one:   forall(k, 0, len(pb.weights), absi(old(pb.weights[k])) == coeff ==> absi(pb.weights[k]) == 1)
//@   loop 1
//@     invariant idx:   0 <= rangei && rangei <= len(pb.weights)
//@     invariant rest:  forall(k, rangei, len(pb.weights), pb.weights[k] == old(pb.weights[k]))
//@     invariant one:   forall(k, 0, rangei, absi(old(pb.weights[k])) == coeff ==> absi(pb.weights[k]) == 1)
//@     invariant sum:   coeff * vsum(pb.weights, A, rangei) >= old(vsum(pb.weights, A, rangei))
//@     invariant card:  pb.card == old(pb.card)

//@ func (*pbSet).roundToOne
//@   ghost A asg
//@   requires nn:     pb != nil && s != nil
//@   requires idx:    0 <= locked && locked < len(pb.weights) && len(s.model) >= len(pb.weights)
//@   requires sep:    arr(s.model) != arr(pb.weights)
//@   requires locked: pb.weights[locked] != 0
//@   requires cardOK: pb.card - rsum(pb.weights, s.model, absi(pb.weights[locked]), len(pb.weights)) >= 0
//@   modifies pb.card, pb.weights[*]
//@   ensures  sound:  old(pbval(pb, A)) ==> pbval(pb, A)
//@   ensures  one:    absi(pb.weights[locked]) == 1
//@   loop 1
//@     invariant idx:   0 <= rangei && rangei <= len(pb.weights) && wi == absi(old(pb.weights[locked])) && wi > 1
//@     invariant rest:  forall(k, rangei, len(pb.weights), pb.weights[k] == old(pb.weights[k]))
//@     invariant lock:  absi(pb.weights[locked]) == wi
//@     invariant card:  pb.card == old(pb.card) - old(rsum(pb.weights, s.model, wi, rangei))
//@     invariant sum:   vsum(pb.weights, A, rangei) - pb.card >= old(vsum(pb.weights, A, rangei)) - old(pb.card)

// ---------------------------------------------------------------- constraint constructors (C02)

//@ define cholds(c PBConstr, A asg) bool = isum(c.Lits, c.Weights, A, len(c.Lits)) >= c.AtLeast
//@ define nzLits(l []int) bool = forall(k, 0, len(l), l[k] != 0)

// GtEq: the returned constraint is equivalent to "sum of weights of true literals >= n" as the
// caller wrote it (weights of either sign, zero weights), has positive weights and non-zero literals.
//@ func GtEq
//@   ghost A asg
//@   requires lens: weights == nil || len(lits) == len(weights)
//@   requires nz:   nzLits(lits)
//@   requires sep:  weights != nil ==> arr(lits) != arr(weights)
//@   modifies lits[*], weights[*]
//@   ensures  shape: (old(weights == nil) ==> result.Weights == nil) && (old(weights != nil) ==> len(result.Lits) == len(result.Weights))
//@   ensures  pos:   forall(k, 0, len(result.Weights), result.Weights[k] > 0)
//@   ensures  nz:    nzLits(result.Lits)
//@   ensures  equiv: (old(isum(lits, weights, A, len(lits))) >= n) <==> cholds(result, A)
//@   loop 1
//@     invariant nilcase: old(weights == nil) ==> weights == nil && lits == old(lits) && n == old(n) && forall(k, 0, len(lits), lits[k] == old(lits[k]))
//@     invariant idx:   0 <= i && i <= len(weights) && (old(weights != nil) ==> len(lits) == len(weights) && weights != nil)
//@     invariant same:  sameArray(lits, old(lits)) && sameArray(weights, old(weights)) && cap(lits) == old(cap(lits)) && cap(weights) == old(cap(weights))
//@     invariant pos:   forall(k, 0, i, weights[k] > 0)
//@     invariant nz:    nzLits(lits)
//@     invariant eq:    isum(lits, weights, A, len(lits)) - n == old(isum(lits, weights, A, len(lits))) - old(n)
//@   assert body-end 1 prefix: forall(k, 0, prev(i), weights[k] == prev(weights[k]) && lits[k] == prev(lits[k]))
//@   assert body-end 1 del: prev(weights[i]) == 0 ==> lem_isum_delete(lits, weights, prev(lits), prev(weights), A, prev(len(weights)), prev(i))

// LtEq: "sum of weights of true literals <= n" as the caller wrote it.
//@ func LtEq
//@   ghost A asg
//@   requires lens: weights != nil && len(lits) == len(weights)
//@   requires nz:   nzLits(lits)
//@   requires sep:  arr(lits) != arr(weights)
//@   modifies lits[*], weights[*]
//@   ensures  shape: len(result.Lits) == len(result.Weights)
//@   ensures  pos:   forall(k, 0, len(result.Weights), result.Weights[k] > 0)
//@   ensures  nz:    nzLits(result.Lits)
//@   ensures  equiv: (old(isum(lits, weights, A, len(lits))) <= n) <==> cholds(result, A)
//@   loop 1
//@     invariant idx:  0 <= rangei && rangei <= len(lits)
//@     invariant neg:  forall(k, 0, rangei, lits[k] == -old(lits[k]))
//@     invariant rest: forall(k, rangei, len(lits), lits[k] == old(lits[k]))
//@     invariant w:    forall(k, 0, len(weights), weights[k] == old(weights[k]))
//@     invariant sum:  sum == wsum(weights, rangei)
//@   assert before-call GtEq#1 negsum: lem_isum_neg(lits, old(lits), weights, A, len(lits))

// AtMost: at most n of the literals are true (unit weights).
//@ func AtMost
//@   ghost A asg
//@   requires nz:   nzLits(lits)
//@   ensures  w:     result.Weights == nil && len(result.Lits) == len(lits)
//@   ensures  nz:    nzLits(result.Lits)
//@   ensures  equiv: (isum(lits, nil, A, len(lits)) <= n) <==> cholds(result, A)
//@   ensures  frame: forall(k, 0, len(lits), lits[k] == old(lits[k]))
//@   loop 1
//@     invariant idx:  0 <= rangei && rangei <= len(lits) && len(lits2) == len(lits) && fresh(lits2)
//@     invariant neg:  forall(k, 0, rangei, lits2[k] == -lits[k])
//@   assert exit negsum: lem_isum_neg(result.Lits, lits, nil, A, len(lits))

//@ func AtLeast
//@   ghost A asg
//@   ensures  id: result.Lits == lits && result.Weights == nil && result.AtLeast == n
//@   ensures  equiv: (isum(lits, nil, A, len(lits)) >= n) <==> cholds(result, A)

//@ func PropClause
//@   ghost A asg
//@   ensures  id: result.Lits == lits && result.Weights == nil && result.AtLeast == 1
//@   ensures  equiv: (isum(lits, nil, A, len(lits)) >= 1) <==> cholds(result, A)
