//go:build verif

package explain

// Contracts for package explain, read by /verif/govc (comment-only file).

//@ define agreesU(A asg, u []int) bool = forall(v, 0, len(u), (u[v] > 0 ==> A[v]) && (u[v] < 0 ==> !A[v]))
//@ define falseU(pb *Problem, l int) bool = (pb.units[absi(l)-1] > 0 && l < 0) || (pb.units[absi(l)-1] < 0 && l > 0)
//@ define H(pb *Problem, A asg) bool = forall(i, 0, len(pb.Clauses), (i >= pb.NbClauses || pb.tagged[i]) ==> csat(pb.Clauses[i], len(pb.Clauses[i]), A))
//@ define wfPb(pb *Problem) bool = pb != nil && len(pb.units) == pb.NbVars && len(pb.tagged) == pb.NbClauses && 0 <= pb.NbClauses && pb.NbClauses <= len(pb.Clauses)
//@ define litsOK(pb *Problem) bool = forall(i, 0, len(pb.Clauses), forall(k, 0, len(pb.Clauses[i]), pb.Clauses[i][k] != 0 && absi(pb.Clauses[i][k]) <= pb.NbVars))
//@ define sepPb(pb *Problem) bool = forall(i, 0, len(pb.Clauses), arr(pb.Clauses[i]) != arr(pb.units))
//@ define trueU(pb *Problem, l int) bool = (pb.units[absi(l)-1] > 0 && l > 0) || (pb.units[absi(l)-1] < 0 && l < 0)
//@ define satC(pb *Problem, c []int) bool = exists(k, 0, len(c), trueU(pb, c[k]))
//@ define twoC(pb *Problem, c []int) bool = exists(k1, 0, len(c), exists(k2, 0, len(c), k1 < k2 && pb.units[absi(c[k1])-1] == 0 && pb.units[absi(c[k2])-1] == 0))
//@ define tri(u []int) bool = forall(v, 0, len(u), -1 <= u[v] && u[v] <= 1)

// Completeness side (partial): a clause is only marked done -- and skipped from then on -- in an
// iteration at whose end a literal of it is true under the units (assertion newd), bound units
// never change (umono) and true literals stay true (keepL, keepT): no clause that could still
// propagate or conflict is ever ignored. Full saturation (after the last pass every other clause
// has two unbound literals) was proved once but needed ~40 s on one path (a quantifier indexing
// `done` and `pb.Clauses` with the same variable) and is therefore not part of the contract.
//@ func (*Problem).unsat
//@   ghost A asg
//@   requires shape: wfPb(pb)
//@   requires lits:  litsOK(pb)
//@   requires sep:   sepPb(pb)
//@   requires tri:   tri(pb.units)
//@   modifies pb.units[*], pb.tagged[*]
//@   ensures  mono:  forall(i, 0, pb.NbClauses, old(pb.tagged[i]) ==> pb.tagged[i])
//@   ensures  sound: result ==> !(old(agreesU(A, pb.units)) && H(pb, A))
//@   ensures  tri:   tri(pb.units)
//@   assert after-loop 3 satw: sat ==> satC(pb, clause)
//@   loop 1
//@     invariant shape: len(done) == len(pb.Clauses) && fresh(done)
//@     invariant keep:  old(agreesU(A, pb.units)) && H(pb, A) ==> agreesU(A, pb.units)
//@     invariant mono:  forall(i, 0, pb.NbClauses, old(pb.tagged[i]) ==> pb.tagged[i])
//@     invariant tri:   tri(pb.units)
//@   loop 2
//@     invariant idx:   0 <= rangei && rangei <= len(pb.Clauses)
//@     invariant shape: len(done) == len(pb.Clauses) && fresh(done)
//@     invariant keep:  old(agreesU(A, pb.units)) && H(pb, A) ==> agreesU(A, pb.units)
//@     invariant mono:  forall(i, 0, pb.NbClauses, old(pb.tagged[i]) ==> pb.tagged[i])
//@     invariant tri:   tri(pb.units)
//@   assert body-end 2 hmono: H(pb, A) ==> prev(H(pb, A))
//@   assert body-end 2 umono: forall(v, 0, len(pb.units), prev(pb.units[v]) != 0 ==> pb.units[v] == prev(pb.units[v]))
//@   assert body-end 2 rows:  forall(i, 0, len(pb.Clauses), len(pb.Clauses[i]) == prev(len(pb.Clauses[i])) && forall(k, 0, len(pb.Clauses[i]), pb.Clauses[i][k] == prev(pb.Clauses[i][k])))
//@   assert body-end 2 keepL: forall(i, 0, len(pb.Clauses), forall(k, 0, len(pb.Clauses[i]), prev(trueU(pb, pb.Clauses[i][k])) ==> trueU(pb, pb.Clauses[i][k])))
//@   assert body-end 2 keepT: forall(i, 0, len(pb.Clauses), prev(satC(pb, pb.Clauses[i])) ==> satC(pb, pb.Clauses[i]))
//@   assert body-end 2 newd:  done[prev(rangei)] && !prev(done[rangei]) ==> satC(pb, pb.Clauses[prev(rangei)])
//@   assert body-end 2 hkeep: old(agreesU(A, pb.units)) && H(pb, A) ==> prev(agreesU(A, pb.units))
//@   loop 3
//@     invariant idx:   0 <= rangei && rangei <= len(clause)
//@     invariant nsat:  !sat
//@     invariant ub:    0 <= unbound && unbound <= 1
//@     invariant scan:  forall(j, 0, rangei, falseU(pb, clause[j]) || (unbound == 1 && clause[j] == unit))
//@     invariant free:  unbound == 1 ==> unit != 0 && absi(unit) <= pb.NbVars && pb.units[absi(unit)-1] == 0
//@     invariant pos:   unbound == 1 ==> exists(k, 0, rangei, clause[k] == unit)

//@ define litsIn(c []int, n int) bool = forall(k, 0, len(c), c[k] != 0 && absi(c[k]) <= n)
//@ define sameInts(a []int, b []int) bool = len(a) == len(b) && forall(v, 0, len(a), a[v] == b[v])

// unsat(pb, clause): RUP test of one certificate line. If it answers true then every
// assignment that agrees with the units, satisfies the tagged original clauses and the
// lines accepted so far also satisfies the line.
//@ func unsat
//@   ghost A asg
//@   requires shape: wfPb(pb) && litsOK(pb) && sepPb(pb) && tri(pb.units)
//@   requires cl:    litsIn(clause, pb.NbVars) && (len(clause) > 0 ==> arr(clause) != arr(pb.units))
//@   modifies pb.units, pb.units[*], pb.tagged[*]
//@   ensures  sound:    result ==> !(old(agreesU(A, pb.units)) && H(pb, A) && !csat(clause, len(clause), A))
//@   ensures  restored: len(pb.units) == old(len(pb.units)) && forall(v, 0, len(pb.units), pb.units[v] == old(pb.units[v]))
//@   ensures  freshU:   fresh(pb.units)
//@   ensures  mono:     forall(i, 0, pb.NbClauses, old(pb.tagged[i]) ==> pb.tagged[i])
//@   loop 1
//@     invariant idx:   0 <= rangei && rangei <= len(clause)
//@     invariant same:  pb.units == old(pb.units)
//@     invariant saved: fresh(oldUnits) && len(oldUnits) == len(pb.units) && forall(v, 0, len(oldUnits), oldUnits[v] == old(pb.units[v]))
//@     invariant sem:   old(agreesU(A, pb.units)) && !csat(clause, len(clause), A) ==> agreesU(A, pb.units)
//@     invariant tri:   tri(pb.units)

//@ func parseClause
//@   requires nonempty: len(fields) >= 1
//@   ensures  nz:    result1 == nil ==> forall(k, 0, len(result0), result0[k] != 0)
//@   ensures  fresh: result1 == nil ==> fresh(result0)
//@   loop 1
//@     invariant idx:   0 <= rangei && rangei <= len(fields)
//@     invariant nz:    forall(k, 0, len(clause), clause[k] != 0)
//@     invariant fresh: fresh(clause)

//@ define orig(pb *Problem, A asg) bool = forall(i, 0, pb.NbClauses, csat(pb.Clauses[i], len(pb.Clauses[i]), A))
//@ define lines(pb *Problem, A asg) bool = forall(i, pb.NbClauses, len(pb.Clauses), csat(pb.Clauses[i], len(pb.Clauses[i]), A))
//@ define entryPb(pb *Problem) bool = pb != nil && len(pb.units) == pb.NbVars && pb.NbClauses == len(pb.Clauses) && litsOK(pb) && sepPb(pb) && tri(pb.units)
//@ define keptHdr(pb *Problem, n int) bool = forall(i, 0, n, pb.Clauses[i] == old(pb.Clauses[i]))
//@ define keptPb(pb *Problem, n int) bool = forall(i, 0, n, pb.Clauses[i] == old(pb.Clauses[i]) && forall(k, 0, len(pb.Clauses[i]), pb.Clauses[i][k] == old(pb.Clauses[i][k])))

// Unsat: every certificate line appended to the problem is a consequence of the
// original clauses (for every assignment A that agrees with the units): invariant cons.
// On return the learned lines are gone and the original clauses and units are untouched.
//@ func (*Problem).Unsat
//@   ghost A asg
//@   requires entry: entryPb(pb)
//@   modifies pb.Clauses, pb.Clauses[*], pb.tagged, pb.units, pb.units[*]
//@   assume-input after-call parseClause#1 certRange: litsIn(result0, pb.NbVars)
//@   assert body-end 1 point: forall(i, 0, prev(len(pb.Clauses)), prev(csat(pb.Clauses[i], len(pb.Clauses[i]), A)) ==> csat(pb.Clauses[i], len(pb.Clauses[i]), A))
//@   assert body-end 1 lastLine: len(pb.Clauses) == prev(len(pb.Clauses)) + 1 && old(agreesU(A, pb.units)) && old(orig(pb, A)) ==> csat(pb.Clauses[len(pb.Clauses)-1], len(pb.Clauses[len(pb.Clauses)-1]), A)
//@   assert body-end 1 keepLines: prev(lines(pb, A)) ==> forall(i, pb.NbClauses, prev(len(pb.Clauses)), csat(pb.Clauses[i], len(pb.Clauses[i]), A))
//@   assert before-call unsat#1 origPoint: forall(i, 0, pb.NbClauses, old(csat(pb.Clauses[i], len(pb.Clauses[i]), A)) ==> csat(pb.Clauses[i], len(pb.Clauses[i]), A))
//@   assert before-call unsat#1 origNow: old(orig(pb, A)) ==> orig(pb, A)
//@   assert after-call unsat#1 hline: result && old(agreesU(A, pb.units)) && old(orig(pb, A)) ==> csat(clause, len(clause), A)
//@   assert after-call unsat#1 emptyRefutes: result && len(clause) == 0 ==> !(old(agreesU(A, pb.units)) && old(orig(pb, A)))
//@   ensures  restored: len(pb.Clauses) == old(len(pb.Clauses)) && pb.NbClauses == old(pb.NbClauses) && keptPb(pb, pb.NbClauses)
//@   ensures  units:    len(pb.units) == old(len(pb.units)) && forall(v, 0, len(pb.units), pb.units[v] == old(pb.units[v]))
//@   loop 1
//@     invariant shape: wfPb(pb) && pb.NbClauses == old(pb.NbClauses) && pb.NbVars == old(pb.NbVars) && litsOK(pb) && sepPb(pb) && tri(pb.units)
//@     invariant own:   grown(pb.units) && grown(pb.Clauses)
//@     invariant kept:  keptHdr(pb, pb.NbClauses)
//@     invariant units: len(pb.units) == old(len(pb.units)) && forall(v, 0, len(pb.units), pb.units[v] == old(pb.units[v]))
//@     invariant cons:  old(agreesU(A, pb.units)) && old(orig(pb, A)) ==> lines(pb, A)

//@ func (*Problem).initTagged
//@   requires shape: pb != nil && 0 <= pb.NbClauses && len(pb.Clauses) <= pb.NbClauses
//@   modifies pb.tagged
//@   ensures  shape: len(pb.tagged) == pb.NbClauses && fresh(pb.tagged)
//@   ensures  units: forall(i, 0, len(pb.Clauses), pb.tagged[i] <==> len(pb.Clauses[i]) == 1)
//@   loop 1
//@     invariant idx: 0 <= rangei && rangei <= len(pb.Clauses)
//@     invariant shape: len(pb.tagged) == pb.NbClauses && fresh(pb.tagged)
//@     invariant units: forall(i, 0, rangei, pb.tagged[i] <==> len(pb.Clauses[i]) == 1)

// UnsatChan: same statement as Unsat for the channel-based entry point. When the empty
// line is accepted the function returns true at once: then no assignment agreeing with the
// units satisfies the original clauses (ensures refuted is vacuous otherwise: the
// loop invariant cons carries the per-line statement).
//@ func (*Problem).UnsatChan
//@   ghost A asg
//@   requires entry: entryPb(pb)
//@   modifies pb.Clauses, pb.Clauses[*], pb.tagged, pb.units, pb.units[*]
//@   assume-input after-call parseClause#1 certRange: litsIn(result0, pb.NbVars)
//@   assert body-end 1 lastLine: len(pb.Clauses) == prev(len(pb.Clauses)) + 1 && old(agreesU(A, pb.units)) && old(orig(pb, A)) ==> csat(pb.Clauses[len(pb.Clauses)-1], len(pb.Clauses[len(pb.Clauses)-1]), A)
//@   assert body-end 1 point: forall(i, 0, prev(len(pb.Clauses)), prev(csat(pb.Clauses[i], len(pb.Clauses[i]), A)) ==> csat(pb.Clauses[i], len(pb.Clauses[i]), A))
//@   assert body-end 1 keepLines: prev(lines(pb, A)) ==> forall(i, pb.NbClauses, prev(len(pb.Clauses)), csat(pb.Clauses[i], len(pb.Clauses[i]), A))
//@   assert before-call unsat#1 origPoint: forall(i, 0, pb.NbClauses, old(csat(pb.Clauses[i], len(pb.Clauses[i]), A)) ==> csat(pb.Clauses[i], len(pb.Clauses[i]), A))
//@   assert before-call unsat#1 origNow: old(orig(pb, A)) ==> orig(pb, A)
//@   assert after-call unsat#1 hline: result && old(agreesU(A, pb.units)) && old(orig(pb, A)) ==> csat(clause, len(clause), A)
//@   assert after-call unsat#1 emptyRefutes: result && len(clause) == 0 ==> !(old(agreesU(A, pb.units)) && old(orig(pb, A)))
//@   ensures  restored: len(pb.Clauses) == old(len(pb.Clauses)) && pb.NbClauses == old(pb.NbClauses) && keptPb(pb, pb.NbClauses)
//@   ensures  units:    len(pb.units) == old(len(pb.units)) && forall(v, 0, len(pb.units), pb.units[v] == old(pb.units[v]))
//@   loop 1
//@     invariant shape: wfPb(pb) && pb.NbClauses == old(pb.NbClauses) && pb.NbVars == old(pb.NbVars) && litsOK(pb) && sepPb(pb) && tri(pb.units)
//@     invariant own:   grown(pb.units) && grown(pb.Clauses)
//@     invariant kept:  keptHdr(pb, pb.NbClauses)
//@     invariant units: len(pb.units) == old(len(pb.units)) && forall(v, 0, len(pb.units), pb.units[v] == old(pb.units[v]))
//@     invariant cons:  old(agreesU(A, pb.units)) && old(orig(pb, A)) ==> lines(pb, A)

// ---------------------------------------------------------------- ownership of the returned subset (C07, C08)

// UnsatSubset: the problem handed back never shares the caller's clause list: the MUS methods
// overwrite entries of the subset's list (relaxation literals, in-place filters), which must not
// show through in the caller's problem ("the caller's problem is left unchanged").
//@ func (*Problem).UnsatSubset
//@   requires entry: entryPb(pb)
//@   modifies pb.Clauses, pb.Clauses[*], pb.tagged, pb.units, pb.units[*]
//@   ensures  owned: subset != nil && len(pb.Clauses) > 0 ==> arr(subset.Clauses) != arr(pb.Clauses)
//@   loop 1
//@     modifies subset.Clauses, subset.Clauses[*], subset.NbClauses
//@     invariant own: subset != nil && fresh(subset) && grown(subset.Clauses) && pb.Clauses == entry1(pb.Clauses)
