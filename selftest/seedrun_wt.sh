#!/bin/sh
# usage: seedrun_wt.sh <seed-dir-name> [property]  -- applies a seeded change in a scratch worktree of /repo HEAD and runs the
# quick check of the property against it (VERIF_REPO), so /repo itself is never touched; removes the worktree afterwards
cd /verif
S=$1; P=${2:-$(echo $S | cut -d- -f1)}
PATCH=seeded/$S/patch_rebased.diff; [ -f $PATCH ] || PATCH=seeded/$S/patch.diff
D=$(mktemp -d /tmp/sr.XXXXXX)
git -C /repo worktree add -q --detach $D HEAD || exit 2
git -C $D apply /verif/$PATCH || { echo "$S: patch does not apply"; git -C /repo worktree remove --force $D; exit 3; }
out=$(VERIF_REPO=$D bin/govc check -property $P -noevidence 2>&1); rc=$?
git -C /repo worktree remove --force $D
echo "== $S on $P rc=$rc"
echo "$out" | grep -E "^VIOLATION|^KNOWN|quick:" | cut -c1-260
