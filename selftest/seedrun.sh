#!/bin/sh
# usage: seedrun.sh <patchfile> <property>  -- applies a seeded change to /repo, runs the quick check, undoes it
cd /verif
git -C /repo apply "$1" || { echo "patch does not apply"; exit 3; }
out=$(bin/govc check -property $2 -noevidence 2>&1); rc=$?
git -C /repo checkout -- . 
echo "$out" | grep -E "^VIOLATION|^KNOWN|quick:" | cut -c1-220
echo "rc=$rc"
