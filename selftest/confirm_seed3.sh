#!/bin/sh
# usage: confirm_seed3.sh <ID> <k>   -- round 3: seeds produced against /repo HEAD (with the fix: commits)
# Confirms a sub-agent's seeded change in a fresh scratch worktree and stores it under /verif/seeded/<ID>-<k>/
ID=$1; K=$2
SRC=/tmp/seed_out/$ID
export GOFLAGS=-mod=mod GOPROXY=off GOSUMDB=off GOTOOLCHAIN=local
DIR=$(python3 -c "import json,sys;print(json.load(open('$SRC/meta$K.json')).get('dir','solver'))")
D=$(mktemp -d /tmp/cs.XXXXXX)
BASE=$(git -C /repo rev-parse HEAD)
git -C /repo worktree add -q --detach $D $BASE || exit 2
cp $SRC/demo${K}_test.go $D/$DIR/zz_demo${K}_test.go
( cd $D/$DIR && go test -vet=off -count=1 -run . . > $D/clean_demo.log 2>&1 ); CLEAN=$?
git -C $D apply $SRC/patch$K.diff || { echo "patch does not apply"; git -C /repo worktree remove --force $D; exit 2; }
( cd $D && go build ./... > $D/build.log 2>&1 ); BUILD=$?
( cd $D/$DIR && go test -vet=off -count=1 -run . . > $D/mut_demo.log 2>&1 ); MUT=$?
rm $D/$DIR/zz_demo${K}_test.go
( cd $D && go test -vet=off -count=1 ./... > $D/suite.log 2>&1 ); SUITE=$?
echo "$ID-$K: demo on clean rc=$CLEAN (want 0); build rc=$BUILD (want 0); demo with change rc=$MUT (want !=0); full suite with change rc=$SUITE (want 0)"
if [ $CLEAN -eq 0 ] && [ $BUILD -eq 0 ] && [ $MUT -ne 0 ] && [ $SUITE -eq 0 ]; then
  O=/verif/seeded/$ID-$K; mkdir -p $O
  cp $SRC/patch$K.diff $O/patch.diff; cp $SRC/demo${K}_test.go $O/demo_test.go
  python3 - "$SRC/meta$K.json" "$O/meta.json" "$ID" "$DIR" "$BASE" <<'PY'
import json,sys
src,dst,pid,d,base=sys.argv[1:6]
try: m=json.load(open(src))
except Exception as e: m={"summary":"(sub-agent meta unreadable: %s)"%e}
out={"property":pid,"breaks":m.get("summary"),"needs":m.get("needs"),"demo_package_dir":d,"base_commit":base,
 "confirmed_by_me":"fresh worktree of /repo HEAD (%s): demo passes on clean tree; with patch.diff applied `go build ./...` ok, demo fails, `go test -vet=off -count=1 ./...` passes"%base[:7],
 "subagent_commands":m.get("commands")}
json.dump(out,open(dst,"w"),indent=1)
PY
  echo "kept in $O"
else
  echo "NOT kept"; tail -5 $D/clean_demo.log $D/suite.log
fi
git -C /repo worktree remove --force $D
