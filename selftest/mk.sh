#!/bin/sh
# usage: mk.sh <name> <property> <file> <sed-expr>   -- creates selftest/mutants/<name>.diff (+ .prop)
set -e
D=$(mktemp -d /tmp/st.XXXXXX)
git -C /repo worktree add -q --detach $D HEAD
( cd $D && sed -i "$4" "$3" && git diff > /verif/selftest/mutants/$1.diff )
git -C /repo worktree remove --force $D
echo "$2" > /verif/selftest/mutants/$1.prop
[ -s /verif/selftest/mutants/$1.diff ] || { echo "EMPTY DIFF for $1"; exit 1; }
