#!/bin/sh
# Runs every must-fail mutant: applies the diff to a scratch worktree of /repo, runs the
# property's quick check against it and expects a VIOLATION (exit 1). Usage: run.sh [name-pattern]
cd /verif
pass=0; fail=0
for d in selftest/mutants/${1:-*}.diff; do
  n=$(basename $d .diff); p=$(cat selftest/mutants/$n.prop)
  D=$(mktemp -d /tmp/st.XXXXXX)
  git -C /repo worktree add -q --detach $D HEAD
  if ! git -C $D apply /verif/$d 2>/dev/null; then echo "SKIP $n (patch does not apply)"; git -C /repo worktree remove --force $D; continue; fi
  if ! (cd $D && GOFLAGS=-mod=mod go build ./... 2>/dev/null); then echo "SKIP $n (does not build)"; git -C /repo worktree remove --force $D; continue; fi
  out=$(VERIF_REPO=$D VERIF_DIR=/verif bin/govc check -property $p -noevidence 2>&1); rc=$?
  git -C /repo worktree remove --force $D
  if [ $rc -eq 1 ] && echo "$out" | grep -q "^VIOLATION property=$p"; then pass=$((pass+1)); echo "ok   $n ($p): $(echo "$out" | grep -c '^VIOLATION') violation(s): $(echo "$out" | grep '^VIOLATION' | head -1 | sed 's/.*obligation=//' | cut -c1-90)";
  else fail=$((fail+1)); echo "MISS $n ($p): rc=$rc"; fi
done
echo "selftest: $pass detected, $fail missed"
[ $fail -eq 0 ]
