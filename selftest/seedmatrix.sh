#!/bin/sh
# Runs every seeded change (seeded/<ID>-<k>) against the quick check of its property:
# apply to /repo, run, undo. Output: one line per seed in selftest/seedmatrix.log
cd /verif
: > selftest/seedmatrix.log
for d in seeded/*/; do
  s=$(basename $d); p=${s%-*}
  [ -f claims/$p.json ] || { echo "$s skipped (property $p not claimed)" >> selftest/seedmatrix.log; continue; }
  patch=$d/patch.diff; [ -f $d/patch_rebased.diff ] && patch=$d/patch_rebased.diff
  if ! git -C /repo apply --check $patch 2>/dev/null; then echo "$s patch-does-not-apply ($patch)" >> selftest/seedmatrix.log; continue; fi
  git -C /repo apply $patch
  out=$(bin/govc check -property $p -noevidence 2>&1); rc=$?
  git -C /repo checkout -- . ; git -C /repo clean -fdq -- . 2>/dev/null
  nv=$(echo "$out" | grep -c "^VIOLATION")
  first=$(echo "$out" | grep "^VIOLATION" | head -2 | sed 's/.*obligation=//' | cut -c1-110 | tr '\n' ';')
  echo "$s rc=$rc violations=$nv $first" >> selftest/seedmatrix.log
done
echo done >> selftest/seedmatrix.log
