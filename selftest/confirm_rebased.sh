#!/bin/sh
# usage: confirm_rebased.sh <ID-k> <demo-dir>: confirms seeded/<ID-k>/patch_rebased.diff against /repo HEAD
S=$1; DIR=$2; O=/verif/seeded/$S
export GOFLAGS=-mod=mod GOPROXY=off GOSUMDB=off GOTOOLCHAIN=local
D=$(mktemp -d /tmp/cr.XXXXXX)
git -C /repo worktree add -q --detach $D HEAD || exit 2
cp $O/demo_test.go $D/$DIR/zz_demo_test.go
( cd $D/$DIR && go test -vet=off -count=1 -run . . > $D/clean.log 2>&1 ); CLEAN=$?
git -C $D apply $O/patch_rebased.diff || { echo "$S: rebased patch does not apply"; git -C /repo worktree remove --force $D; exit 2; }
( cd $D && go build ./... ) >/dev/null 2>&1; BUILD=$?
( cd $D/$DIR && go test -vet=off -count=1 -run . . > $D/mut.log 2>&1 ); MUT=$?
rm $D/$DIR/zz_demo_test.go
( cd $D && go test -vet=off -count=1 ./... > $D/suite.log 2>&1 ); SUITE=$?
echo "$S rebased: demo on HEAD rc=$CLEAN (want 0); build rc=$BUILD; demo with change rc=$MUT (want !=0); suite with change rc=$SUITE (want 0)"
if [ $CLEAN -eq 0 ] && [ $BUILD -eq 0 ] && [ $MUT -ne 0 ] && [ $SUITE -eq 0 ]; then
python3 - $O/meta.json <<'PY'
import json,sys
m=json.load(open(sys.argv[1])); m["rebased"]="patch_rebased.diff is the same change applied on top of the fix: commits in /repo; confirmed in a fresh worktree of HEAD: demo passes without it, fails with it, full suite passes with it"
json.dump(m,open(sys.argv[1],"w"),indent=1)
PY
else tail -3 $D/clean.log $D/suite.log; fi
git -C /repo worktree remove --force $D
