#!/usr/bin/env python3
# usage: addfn.py <property> <function key>...   -- adds functions to claims/<property>.json (then run: bin/govc check -property <id> -claim)
import json,sys
p='/verif/claims/%s.json'%sys.argv[1]
c=json.load(open(p))
for f in sys.argv[2:]:
    if f not in c['functions']: c['functions'].append(f)
json.dump(c,open(p,'w'),indent=1)
print(c['functions'])
