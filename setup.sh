#!/bin/sh
# Builds the verifier from files on disk only (offline).
set -e
cd "$(dirname "$0")/govc"
export GOFLAGS=-mod=mod GOPROXY=off GOSUMDB=off GOTOOLCHAIN=local
mkdir -p ../bin
go build -o ../bin/govc .
