#!/usr/bin/env python3
# Regenerates /verif/MANIFEST.json from the claims directory and the table below.
import json, os, subprocess
V='/verif'
props=[json.loads(l) for l in open(V+'/properties.jsonl')]
TECH="contract-based deductive verification: contracts in //@ comments, VCs generated from go/ssa by govc, discharged by z3/cvc5"
TEXT={
 'C01':"Contracts on the literal encoding (IntToLit, Lit.Int, Negation, Var) and other functions listed in claims/C01.json, discharged for all inputs. The CDCL search loop itself is not under contract (see evidence assumptions).",
 'C02':"Every public constraint constructor under contract is proved equivalent, for an arbitrary ghost assignment, to the arithmetic reading of what the caller wrote (GtEq/LtEq/AtMost/AtLeast/...: weights of either sign, zero weights, unit weights); unbounded in constraint length and coefficient values.",
 'C08':"Soundness of the certificate checker as discharged contracts: (*Problem).unsat (RUP test), unsat(pb, clause), Unsat, UnsatChan (every accepted line is a consequence of the problem for every assignment; accepted empty line refutes; problem restored), parseClause, initTagged. Unbounded in problem and certificate size.",
 'C14':"Soundness of each cutting-planes inference rule under contract (clash, divideBy, roundToOne and others in claims/C14.json): whatever the rule derives is implied by its premises for every assignment. The search loop using the rules is not under contract.",
}
NA_REASON={
 'C11':"formulas are interface-typed trees with dynamic dispatch and recursion over heap structures; outside the subset the VC generator supports (DESIGN.md section 6)",
 'C12':"same as C11: recursive heap data and existential witnesses for auxiliary variables are outside the reach of the WP generator (DESIGN.md section 6)",
 'C17':"quantifies over renderings of syntax trees as byte strings read through text/scanner; needs a string theory and a model of an external stateful scanner (DESIGN.md section 6)",
 'C18':"print/parse round trip over fmt.Sprintf/strings.Join output and strings.Fields/strconv.Atoi input is a string-level inverse pair; no string theory in the verifier (DESIGN.md section 6)",
}
checks=[];na=[]
for p in props:
    pid=p['id']
    cf=V+'/claims/%s.json'%pid
    if os.path.exists(cf) and json.load(open(cf)).get('obligations'):
        checks.append({"property_id":pid,"quick_cmd":"./check.sh %s quick"%pid,"thorough_cmd":"./check.sh %s thorough"%pid,
          "evidence_file":"/verif/evidence/%s.json"%pid,"engine":"govc",
          "level_claimed":{"category":"proof","text":TEXT.get(pid,"Contracts listed in claims/%s.json discharged for all inputs."%pid),"design_ref":"DESIGN.md section 4 (%s)"%pid},
          "level_note":"Trusted: govc VC generator, go/ssa, z3/cvc5; int64 arithmetic mathematical; external library calls assumed harmless; entry preconditions (requires of public functions, assume-input clauses) listed in the contract files; functions the property depends on that are not under contract are listed in the evidence file under assumptions/not_covered.",
          "technique":TECH})
    else:
        na.append({"property_id":pid,"reason":NA_REASON.get(pid,"no contract discharged yet for the functions this property depends on (work in progress)")})
hooks=subprocess.run(['git','-C','/repo','log','--format=%H %s'],capture_output=True,text=True).stdout.splitlines()
hook_commits=[l.split()[0] for l in hooks if 'verif hook' in l]
m={"version":1,"setup_cmd":"./setup.sh",
 "hooks":{"guard":"verif","enable":"contract files <pkg>/zz_contracts_verif.go are comment-only and built only with -tags verif; govc loads /repo with -tags verif (canonical copies in /verif/contracts are overlaid if the repository copy is missing or differs)","baseline_off_cmd":"cd /repo && go test -mod=mod -vet=off -count=1 -timeout 25m ./...","source_commits":hook_commits,"add_only":True},
 "engines":[{"name":"govc","path":"/verif/govc","serves_properties":[c['property_id'] for c in checks],"kind_free_text":"contract-based deductive verifier for Go written for this task: contracts in //@ comments, verification conditions from go/ssa, discharged by z3 5.1.0 / z3 4.8.12 / cvc5 1.0"}],
 "checks":checks,"not_applicable":na,
 "notes":"See DESIGN.md. Known findings: /verif/known_findings.json. Seeded changes used to test the checks: /verif/seeded/."}
json.dump(m,open(V+'/MANIFEST.json','w'),indent=1)
try:
    import jsonschema
    jsonschema.validate(m,json.load(open('/root/.vp/MANIFEST.schema.json'))); print('MANIFEST valid;',len(checks),'checks,',len(na),'n/a')
except ImportError:
    print('written (jsonschema not available)')
