#!/usr/bin/env python3
# Regenerates /verif/MANIFEST.json from the claims directory and the table below.
import json, os, subprocess
V='/verif'
props=[json.loads(l) for l in open(V+'/properties.jsonl')]
TECH="contract-based deductive verification: contracts in //@ comments, VCs generated from go/ssa by govc, discharged by z3/cvc5"
TEXT={
 'C01':"Proof, for all inputs, of the pieces of the CNF pipeline that are under contract (claims/C01.json): the literal / variable encoding and its inverse, clause flag bits, literal removal and swapping, model extraction (one boolean per declared variable with the sign of the saved binding), growth of the per-variable tables, and the clause structure built by the DIMACS reader (one clause per terminator holding the literals read, in order; empty clause kept). NOT decided: that the CDCL search answers Sat exactly when a model exists (search, conflict analysis and parse-time simplification are not under contract) - the evidence lists this under assumptions.",
 'C02':"Every public constraint constructor under contract is proved equivalent, for an arbitrary ghost assignment, to the arithmetic reading of what the caller wrote (GtEq/LtEq/Eq/AtMost/AtLeast/AtMost1, PropClause, NewPBClause: weights of either sign, zero weights, unit weights, trivially true/false constraints); unbounded in constraint length and coefficient values. The search that decides the conjunction is not under contract.",
 'C03':"Optimal and Minimize are proved, relative to the trusted contract of Solve and the assumed semantic clauses of AppendClause: the reported cost is the cost of the returned model, delivered costs strictly decrease, and when the loop ends no model of the original constraints is cheaper (semantic loop invariant over all assignments); nil and zero cost weights handled; AppendClause's normalisation is proved structurally (degree lowered by exactly the weight of removed true literals, unit rule only on unbound positive-weight literals).",
 'C04':"MaxSAT: for every soft constraint the relaxation built by maxsat.New is proved to be satisfied by its blocking literal alone and to mean what the user wrote when the blocking literal is false (clauses, cardinality, PB; assertion-level obligations inside New), WCNF clause lines are relaxed the same way (parseWCNFClause), and minimality of the cost is inherited from Minimize (C03). Name tables (string-keyed maps), Problem.Solve's projection and the result forwarder are not under contract.",
 'C05':"countCurrentModels returns 2^(number of unbound variables), addCurrentModels enumerates each completion of the unbound variables exactly once (bit j of the counter drives the j-th unbound variable) and decisionLits returns the negated decisions, one per level, without panicking on an empty trail: proved for all solver states satisfying the stated invariants. The enumeration loop around them (blocking clauses + search) is not under contract.",
 'C07':"MUS extraction glue in package explain: parseClause / initTagged / the tagged unit-propagation check and UnsatChan's restoration of the caller's problem are proved (units restored on every path, tags cover every clause including unit clauses). Minimality and unsatisfiability of the returned subset depend on the solver runs in between, which are trusted.",
 'C08':"Soundness of the certificate checker as discharged contracts: (*Problem).unsat (RUP test), unsat(pb, clause), Unsat, UnsatChan: every accepted line is a consequence of the problem for every assignment; an accepted empty line refutes the problem; the problem is restored. Completeness (every RUP-derivable line accepted) is not proved.",
 'C09':"Adding constraints to a live solver: newVar / addVarWatcherList keep every per-variable table at nbVars entries and pairwise separate; AppendClause's normalisation loop and case split are proved structurally (see C03), propagateUnits binds every listed unit or answers Unsat (a unit contradicting a top-level binding gives Unsat). The semantic equivalence with a fresh solver rests on unit propagation and the search, which are trusted / assumed (listed in the evidence).",
 'C10':"Assume: the previous round's assumption flags are dropped, the problem's unit constraints are re-bound, exactly the listed variables are flagged, and unless the round is refuted at once every unit constraint and every assumed literal is true at the top level; contradictory assumption lists are refuted (proved relative to trusted cleanupBindings / propagate). The search under assumptions is not under contract.",
 'C13':"Parsers: an OPB constraint line is proved to be stored with the meaning the format gives it (>=, =, coefficients of either sign, zero coefficients, trivially true/false, never a panic); the DIMACS reader appends exactly one clause per terminator with the literals read and never reports end-of-stream together with a number; WCNF clause lines via parseWCNFClause. The byte level (bufio, strings.Fields, strconv) is external and assumed.",
 'C14':"Soundness of each cutting-planes inference rule under contract (clash, divideBy, roundToOne, backtrackLevel, falsifies; claims/C14.json): whatever the rule derives is implied by its premises for every assignment, unbounded in constraint size. The search loop using the rules is not under contract.",
 'C15':"removeBinaries (the rewriting step of DetectAtMostOne) keeps every clause that is not scheduled for removal, in order, and removes exactly the scheduled ones: proved for all inputs. The clique detection that decides what is scheduled is not under contract.",
 'C16':"Frame of the conflict-analysis path (learnClause, addClauseLits, minimizeLearned), the only code that ever wrote through a package-level variable: proved to write only the solver's own buffer and heuristic tables, its arguments and freshly allocated memory. Interleavings, channels and the remaining functions are not modelled; this is a sequential frame property, not a race-freedom proof.",
 'C20':"Sequential part of the result-stream property for Optimal: the channel is closed exactly once on every path, nothing is sent after the close, delivered costs strictly decrease, each delivered model is a freshly allocated slice of the current iteration, the returned result is the last one delivered (ghost channel state: nsent / lastsent / closed). Independence from the consumer's speed and deadlock freedom are not decided (no interleaving semantics).",
}
NA_REASON={
 'C06':"whether each emitted clause is RUP-derivable is a property of the conflict analysis and of the whole search history (every learned clause follows from the clause database at that time): it needs the CDCL loop, propagate and learnClause under a semantic contract, which is beyond what the VC generator and solvers could discharge here; only addLearnedUnit (the binding does not depend on the Certified flag) is under contract, under C10",
 'C11':"formulas are interface-typed trees with dynamic dispatch and recursion over heap structures; outside the subset the VC generator supports (DESIGN.md section 6)",
 'C12':"same as C11: recursive heap data and existential witnesses for auxiliary variables are outside the reach of the WP generator (DESIGN.md section 6)",
 'C17':"quantifies over renderings of syntax trees as byte strings read through text/scanner; needs a string theory and a model of an external stateful scanner (DESIGN.md section 6)",
 'C18':"print/parse round trip over fmt.Sprintf/strings.Join output and strings.Fields/strconv.Atoi input is a string-level inverse pair; no string theory in the verifier (DESIGN.md section 6)",
 'C19':"the property is about the bytes a process writes to standard output and its exit status for files on disk (os, flag, fmt.Printf, goroutines feeding printers): none of it is expressible as a pre/postcondition over program memory in this verifier; the library functions main.go calls are covered by the other properties",
}
checks=[];na=[]
for p in props:
    pid=p['id']
    cf=V+'/claims/%s.json'%pid
    if os.path.exists(cf) and json.load(open(cf)).get('obligations'):
        checks.append({"property_id":pid,"quick_cmd":"./check.sh %s quick"%pid,"thorough_cmd":"./check.sh %s thorough"%pid,
          "evidence_file":"/verif/evidence/%s.json"%pid,"engine":"govc",
          "level_claimed":{"category":"proof","text":TEXT.get(pid,"Contracts listed in claims/%s.json discharged for all inputs."%pid),"design_ref":"DESIGN.md section 4 (%s)"%pid},
          "level_note":"Trusted: govc VC generator, go/ssa, z3/cvc5; int64 arithmetic mathematical; external library calls assumed harmless; entry preconditions (requires of public functions, assume-input clauses) listed in the contract files; functions the property depends on that are not under contract are listed in the evidence file under assumptions/not_covered.",
          "technique":TECH})
    else:
        na.append({"property_id":pid,"reason":NA_REASON.get(pid,"no contract discharged yet for the functions this property depends on (work in progress)")})
hooks=subprocess.run(['git','-C','/repo','log','--format=%H %s'],capture_output=True,text=True).stdout.splitlines()
hook_commits=[l.split()[0] for l in hooks if 'verif hook' in l]
m={"version":1,"setup_cmd":"./setup.sh",
 "hooks":{"guard":"verif","enable":"contract files <pkg>/zz_contracts_verif.go are comment-only and built only with -tags verif; govc loads /repo with -tags verif (canonical copies in /verif/contracts are overlaid if the repository copy is missing or differs)","baseline_off_cmd":"cd /repo && go test -mod=mod -vet=off -count=1 -timeout 25m ./...","source_commits":hook_commits,"add_only":True},
 "engines":[{"name":"govc","path":"/verif/govc","serves_properties":[c['property_id'] for c in checks],"kind_free_text":"contract-based deductive verifier for Go written for this task: contracts in //@ comments, verification conditions from go/ssa, discharged by z3 5.1.0 / z3 4.8.12 / cvc5 1.0"}],
 "checks":checks,"not_applicable":na,
 "notes":"See DESIGN.md. Known findings: /verif/known_findings.json. Seeded changes used to test the checks: /verif/seeded/."}
json.dump(m,open(V+'/MANIFEST.json','w'),indent=1)
try:
    import jsonschema
    jsonschema.validate(m,json.load(open('/root/.vp/MANIFEST.schema.json'))); print('MANIFEST valid;',len(checks),'checks,',len(na),'n/a')
except ImportError:
    print('written (jsonschema not available)')
