package main

import (
	_ "embed"
	"fmt"
	"go/types"
	"os"
	"path/filepath"
	"sort"
	"strings"

	"golang.org/x/tools/go/packages"
	"golang.org/x/tools/go/ssa"
	"golang.org/x/tools/go/ssa/ssautil"
)

//go:embed prelude.smt2
var preludeText string

type preludeSig struct {
	name   string
	params []string
	ret    Sort
	retT   types.Type
}

type Prelude struct {
	text string
	sigs map[string]*preludeSig
}

func parsePrelude(text string) *Prelude {
	p := &Prelude{text: text, sigs: map[string]*preludeSig{}}
	for _, line := range strings.Split(text, "\n") {
		line = strings.TrimSpace(line)
		if !strings.HasPrefix(line, ";@sig ") {
			continue
		}
		// ;@sig name : k k k -> k
		rest := strings.TrimPrefix(line, ";@sig ")
		parts := strings.SplitN(rest, ":", 2)
		name := strings.TrimSpace(parts[0])
		lr := strings.SplitN(parts[1], "->", 2)
		sig := &preludeSig{name: name, params: strings.Fields(lr[0])}
		switch strings.TrimSpace(lr[1]) {
		case "int":
			sig.ret = SortInt
			sig.retT = types.Typ[types.Int]
		case "bool":
			sig.ret = SortBool
		case "asg":
			sig.ret = SortAsg
		case "intarr":
			sig.ret = SortIntArr
		}
		p.sigs[name] = sig
	}
	return p
}

type Engine struct {
	repo      string
	prog      *ssa.Program
	pkgs      []*ssa.Package
	contracts *ContractSet
	prelude   *Prelude
	funcs     map[string]*ssa.Function // fullName -> function
	overlayed []string
}

func NewEngine(repo string, contractDir string) (*Engine, error) {
	eng := &Engine{repo: repo, funcs: map[string]*ssa.Function{}}
	eng.prelude = parsePrelude(preludeText)
	// contracts: canonical copies live in contractDir/<pkgdir>/zz_contracts_verif.go
	var cfiles []string
	filepath.Walk(contractDir, func(p string, info os.FileInfo, err error) error {
		if err == nil && !info.IsDir() && strings.HasSuffix(p, "_verif.go") {
			cfiles = append(cfiles, p)
		}
		return nil
	})
	sort.Strings(cfiles)
	// prefer the repository copy when it is identical; otherwise use the canonical one (overlay)
	overlay := map[string][]byte{}
	for _, cf := range cfiles {
		rel, _ := filepath.Rel(contractDir, cf)
		rp := filepath.Join(repo, rel)
		canon, _ := os.ReadFile(cf)
		have, err := os.ReadFile(rp)
		if err != nil || string(have) != string(canon) {
			overlay[rp] = canon
			eng.overlayed = append(eng.overlayed, rel)
		}
	}
	cs, err := LoadContracts(cfiles)
	if err != nil {
		return nil, err
	}
	eng.contracts = cs
	cfg := &packages.Config{
		Mode:       packages.LoadAllSyntax,
		Dir:        repo,
		BuildFlags: []string{"-tags=verif"},
		Overlay:    overlay,
		Env:        append(os.Environ(), "GOFLAGS=-mod=mod", "GOPROXY=off", "GOSUMDB=off", "GOTOOLCHAIN=local"),
	}
	pkgs, err := packages.Load(cfg, "./...")
	if err != nil {
		return nil, err
	}
	var errs []string
	packages.Visit(pkgs, nil, func(p *packages.Package) {
		for _, e := range p.Errors {
			errs = append(errs, e.Error())
		}
	})
	if len(errs) > 0 {
		return nil, fmt.Errorf("repository does not type-check:\n%s", strings.Join(errs, "\n"))
	}
	prog, spkgs := ssautil.AllPackages(pkgs, ssa.InstantiateGenerics|ssa.GlobalDebug)
	prog.Build()
	eng.prog = prog
	for _, p := range spkgs {
		if p == nil {
			continue
		}
		eng.pkgs = append(eng.pkgs, p)
	}
	for fn := range ssautil.AllFunctions(prog) {
		if fn.Pkg == nil || fn.Synthetic != "" {
			continue
		}
		if !strings.HasPrefix(fn.Pkg.Pkg.Path(), "github.com/crillab/gophersat") {
			continue
		}
		eng.funcs[fullName(fn)] = fn
	}
	return eng, nil
}

func (eng *Engine) Func(key string) *ssa.Function { return eng.funcs[key] }

func (eng *Engine) FuncKeys() []string {
	var ks []string
	for k := range eng.funcs {
		ks = append(ks, k)
	}
	sort.Strings(ks)
	return ks
}
