package main

import (
	"encoding/json"
	"flag"
	"fmt"
	"golang.org/x/tools/go/ssa"
	"os"
	"path/filepath"
	"regexp"
	"runtime"
	"sort"
	"strconv"
	"strings"
	"sync"
	"time"
)

// Claims file: /verif/claims/<id>.json
type Claims struct {
	Property    string   `json:"property"`
	Functions   []string `json:"functions"`
	Obligations []string `json:"obligations"` // base names claimed (discharged on the unchanged tree)
	Notes       string   `json:"notes,omitempty"`
	NotCovered  []string `json:"not_covered,omitempty"`
}

type KnownFinding struct {
	Property   string `json:"property"`
	Status     string `json:"status"` // open | fixed
	Obligation string `json:"obligation,omitempty"`
	What       string `json:"what"`
	Commit     string `json:"commit,omitempty"`
	Input      string `json:"input,omitempty"`
}

var suffixRe = regexp.MustCompile(`(@ret\d+)?(@exit\d+)?(~\d+)?$`)

func baseName(n string) string { return suffixRe.ReplaceAllString(n, "") }

func loadClaims(id string) (*Claims, error) {
	data, err := os.ReadFile(filepath.Join(verifDir(), "claims", id+".json"))
	if err != nil {
		return nil, err
	}
	var c Claims
	if err := json.Unmarshal(data, &c); err != nil {
		return nil, err
	}
	return &c, nil
}

func loadFindings() []KnownFinding {
	data, err := os.ReadFile(filepath.Join(verifDir(), "known_findings.json"))
	if err != nil {
		return nil
	}
	var f struct {
		Findings []KnownFinding `json:"findings"`
	}
	json.Unmarshal(data, &f)
	return f.Findings
}

type funcEvidence struct {
	Function    string   `json:"function"`
	Obligations int      `json:"obligations"`
	Discharged  int      `json:"discharged"`
	Claimed     int      `json:"claimed"`
	SolverTimeS float64  `json:"solver_time_s"`
	Backends    []string `json:"backends"`
	Unsupported []string `json:"unsupported,omitempty"`
	Notes       []string `json:"notes,omitempty"`
}

func cmdCheck(args []string) int {
	fs := flag.NewFlagSet("check", flag.ExitOnError)
	prop := fs.String("property", "", "property id")
	tier := fs.String("tier", os.Getenv("VERIF_TIER"), "quick|thorough")
	claimTimeout := fs.Int("ct", 20, "per-obligation timeout in claim mode (s)")
	claimMode := fs.Bool("claim", false, "rewrite the claim list from this run (unchanged tree only)")
	noEvidence := fs.Bool("noevidence", false, "do not write evidence / replay files (selftest runs against scratch copies)")
	fs.Parse(args)
	if *tier == "" {
		*tier = "quick"
	}
	seed := 0
	if s := os.Getenv("VERIF_SEED"); s != "" {
		seed, _ = strconv.Atoi(s)
	}
	start := time.Now()
	id := *prop
	claims, err := loadClaims(id)
	if err != nil {
		fmt.Fprintf(os.Stderr, "cannot load claims for %s: %v\n", id, err)
		return 2
	}
	eng, err := NewEngine(repoDir(), verifDir()+"/contracts")
	if err != nil {
		// the repository does not build: nothing can be verified; this is not a property verdict
		fmt.Fprintf(os.Stderr, "cannot load %s: %v\n", repoDir(), err)
		return 2
	}
	timeout := 60
	seeds := []int{seed}
	if *tier == "thorough" {
		timeout = 150
		seeds = []int{seed, seed + 1, seed + 2}
	}
	if *claimMode {
		seeds = []int{seed, seed + 1, seed + 2}
		timeout = *claimTimeout // an obligation is only claimed if it discharges well under the quick timeout
	}
	claimed := map[string]bool{}
	for _, o := range claims.Obligations {
		claimed[o] = true
	}
	findings := loadFindings()
	openFinding := map[string]KnownFinding{}
	for _, f := range findings {
		if f.Property == id && f.Status == "open" && f.Obligation != "" {
			openFinding[f.Obligation] = f
		}
	}

	type oblRes struct {
		name, base, fn, kind, src, pos string
		ok                             bool
		status, solver, output, model  string
		timeS                          float64
		expectSat                      bool
		query                          string
		at                             int
		blk                            int
	}
	var all []oblRes
	var fevs []funcEvidence
	assumed := map[string]bool{}
	var engineProblems []string
	missingFuncs := []string{}
	var samples []map[string]string
	if !*claimMode {
		importantObl = func(o *Obl) bool { return claimed[baseName(o.Name)] || o.ExpectSat }
	}
	for si, sd := range seeds {
		var results []*FuncResult
		var vcs []*VC
		for _, k := range claims.Functions {
			fn := eng.Func(k)
			if fn == nil {
				if si == 0 {
					missingFuncs = append(missingFuncs, k)
				}
				continue
			}
			ct := eng.contracts.Lookup(pkgName(fn), relName(fn))
			r := eng.encodeFunc(fn, ct)
			results = append(results, r)
			vcs = append(vcs, r.VC)
		}
		dischargeAll(vcs, timeout, sd, runtime.NumCPU())
		// second chance for obligations that did not get a definite answer (machine load must
		// not turn into an alarm): one more race with a longer timeout and another seed
		{
			var rwg sync.WaitGroup
			sem := make(chan struct{}, 8)
			for _, r := range results {
				for _, o := range r.VC.obls {
					if !o.ok() && !o.ExpectSat && o.Status != "sat" && claimed[baseName(o.Name)] {
						rwg.Add(1)
						go func(vc *VC, o *Obl) {
							defer rwg.Done()
							sem <- struct{}{}
							vc.race(o, timeout*3, sd+7)
							<-sem
						}(r.VC, o)
					}
				}
			}
			rwg.Wait()
		}
		for _, r := range results {
			fe := funcEvidence{Function: r.Key, Unsupported: append(append([]string{}, r.Unsupported...), r.SpecErrs...), Notes: r.VC.notes}
			be := map[string]bool{}
			broken := len(r.Unsupported) > 0 || len(r.SpecErrs) > 0
			if broken && si == 0 {
				engineProblems = append(engineProblems, fmt.Sprintf("%s: %s", r.Key, strings.Join(fe.Unsupported, "; ")))
			}
			for k := range r.VC.assumed {
				assumed[k] = true
			}
			for _, o := range r.VC.obls {
				ok := o.ok() && !broken
				fe.Obligations++
				if ok {
					fe.Discharged++
				}
				if claimed[baseName(o.Name)] {
					fe.Claimed++
				}
				fe.SolverTimeS += o.TimeS
				be[o.Solver] = true
				if si == 0 {
					q := ""
					if !ok {
						q = r.VC.queryText(o, false)
					}
					all = append(all, oblRes{o.Name, baseName(o.Name), r.Key, o.Kind, o.Src, o.Pos, ok, o.Status, o.Solver, o.Output, o.Model, o.TimeS, o.ExpectSat, q, o.At, o.Blk})
					if len(samples) < 6 && (o.Kind == "post" || o.Kind == "inv") && ok {
						samples = append(samples, map[string]string{"obligation": o.Name, "clause": o.Src, "status": o.Status, "backend": o.Solver,
							"smt_goal_head": trunc("(assert "+o.Guard+") (assert (not "+o.Goal+"))", 400)})
					}
				} else {
					// later seeds: an obligation must pass on every seed
					for i := range all {
						if all[i].name == o.Name && all[i].fn == r.Key && all[i].ok && !ok {
							all[i].ok = false
							all[i].status = o.Status + fmt.Sprintf(" (seed %d)", sd)
							all[i].query = r.VC.queryText(o, false)
						}
					}
				}
			}
			if si == 0 {
				for b := range be {
					if b != "" {
						fe.Backends = append(fe.Backends, b)
					}
				}
				sort.Strings(fe.Backends)
				fevs = append(fevs, fe)
			}
		}
	}

	// ---- prelude lemmas (induction proofs) are obligations of every check
	for _, lr := range checkLemmas(timeout) {
		st := "unsat"
		if !lr.OK {
			st = "unknown"
		}
		n := "prelude#lemma:" + lr.Name
		all = append(all, oblRes{name: n, base: n, fn: "prelude", kind: "lemma", src: "induction proof in lemmas/" + lr.Name + ".smt2", ok: lr.OK, status: st, solver: lr.Solver, output: lr.Output, timeS: lr.TimeS})
	}

	// ---- claim mode: rewrite the claim list
	if *claimMode {
		good := map[string]bool{}
		bad := map[string]bool{}
		// Taint: an assertion (lemma hint) or a callee precondition that is not discharged is
		// nevertheless assumed from that point on; a loop invariant that is not discharged is assumed
		// at the loop head. Whatever is proved on a path through such a point is not claimed.
		// "On a path through" = same basic block and later, or a block reachable from it in the
		// control-flow graph without back edges (loops are cut at their heads).
		reachFrom := func(fnKey string, from int) map[int]bool {
			out := map[int]bool{}
			fn := eng.Func(fnKey)
			if fn == nil || from < 0 || from >= len(fn.Blocks) {
				return nil // unknown: taint everything
			}
			stack := []*ssa.BasicBlock{fn.Blocks[from]}
			for len(stack) > 0 {
				b := stack[len(stack)-1]
				stack = stack[:len(stack)-1]
				for _, sc := range b.Succs {
					if isBackEdge(b, sc) || out[sc.Index] {
						continue
					}
					out[sc.Index] = true
					stack = append(stack, sc)
				}
			}
			return out
		}
		type taintPt struct {
			blk, at int
			whole   bool   // the whole block is tainted (loop head), not only what follows "at"
			except  string // obligations whose name contains this are exempt (the loop's own :entry checks)
			reach   map[int]bool
			all     bool
		}
		taints := map[string][]taintPt{}
		loopRe := regexp.MustCompile(`#inv:(loop\d+):`)
		headOf := map[string]int{}
		for _, o := range all {
			if m := loopRe.FindStringSubmatch(o.name); m != nil && strings.Contains(o.name, ":entry") {
				headOf[o.fn+"#"+m[1]] = o.blk
			}
		}
		for _, o := range all {
			if o.ok {
				continue
			}
			switch {
			case o.kind == "assert" || o.kind == "pre":
				r := reachFrom(o.fn, o.blk)
				taints[o.fn] = append(taints[o.fn], taintPt{blk: o.blk, at: o.at, reach: r, all: r == nil})
			case o.kind == "inv":
				if m := loopRe.FindStringSubmatch(o.name); m != nil {
					h, ok := headOf[o.fn+"#"+m[1]]
					if !ok {
						taints[o.fn] = append(taints[o.fn], taintPt{all: true})
						continue
					}
					r := reachFrom(o.fn, h)
					taints[o.fn] = append(taints[o.fn], taintPt{blk: h, whole: true, except: "#inv:" + m[1] + ":", reach: r, all: r == nil})
				}
			}
		}
		isTainted := func(o oblRes) bool {
			for _, t := range taints[o.fn] {
				switch {
				case t.all:
					return true
				case o.blk == t.blk:
					if t.whole {
						if !(strings.Contains(o.name, t.except) && strings.Contains(o.name, ":entry")) {
							return true
						}
					} else if o.at > t.at {
						return true
					}
				case t.reach[o.blk]:
					return true
				}
			}
			return false
		}
		for _, o := range all {
			if o.ok && !isTainted(o) {
				good[o.base] = true
			} else {
				bad[o.base] = true
			}
		}
		var list []string
		for b := range good {
			if !bad[b] {
				list = append(list, b)
			}
		}
		sort.Strings(list)
		claims.Obligations = list
		data, _ := json.MarshalIndent(claims, "", " ")
		os.WriteFile(filepath.Join(verifDir(), "claims", id+".json"), append(data, '\n'), 0o644)
		fmt.Printf("claims/%s.json: %d obligation bases claimed (%d generated obligations, %d not discharged)\n", id, len(list), len(all), len(bad))
		var bl []string
		for b := range bad {
			bl = append(bl, b)
		}
		sort.Strings(bl)
		for _, b := range bl {
			fmt.Printf("  not claimed: %s\n", b)
		}
		for _, p := range engineProblems {
			fmt.Printf("  ENGINE PROBLEM: %s\n", p)
		}
		return 0
	}

	// ---- verdicts
	violations := 0
	replayDir := filepath.Join(verifDir(), "replays", id)
	if *noEvidence {
		replayDir = filepath.Join(os.TempDir(), "govc-selftest-replays", id)
	}
	os.MkdirAll(replayDir, 0o755)
	var unproved []string
	var knownHit []string
	seenClaim := map[string]bool{}
	nObl, nDis := 0, 0
	report := func(o oblRes, why string) {
		violations++
		p := filepath.Join(replayDir, sanitize(o.name)+".json")
		rep := map[string]interface{}{
			"property": id, "obligation": o.name, "function": o.fn, "kind": o.kind, "clause": o.src, "position": o.pos,
			"reason": why, "solver_status": o.status, "solver": o.solver, "solver_output": o.output, "model": o.model,
			"failing_input": nil, "smt_query_file": strings.TrimSuffix(p, ".json") + ".smt2",
		}
		os.WriteFile(strings.TrimSuffix(p, ".json")+".smt2", []byte(o.query), 0o644)
		tail := " no-failing-input-found"
		if o.model == "" && o.status != "unsat" {
			// no definite refutation: ask for the solver's candidate model (quantified prelude axioms make
			// the answer "unknown"); the candidate is only believed if it replays on the real code
			o.model = candidateModel(o.query)
			rep["model"] = o.model
		}
		if cex := tryReplay(eng, id, o.fn, o.name, o.model); cex != nil {
			rep["failing_input"] = cex.Input
			rep["replay_test"] = cex.Test
			rep["replay_output"] = cex.Output
			if cex.Confirmed {
				tail = ""
			}
		}
		data, _ := json.MarshalIndent(rep, "", " ")
		os.WriteFile(p, data, 0o644)
		fmt.Printf("VIOLATION property=%s replay=%s obligation=%s (%s: %s)%s\n", id, p, o.name, why, o.status, tail)
	}
	for _, o := range all {
		isClaimed := claimed[o.base]
		if isClaimed {
			seenClaim[o.base] = true
			nObl++
		}
		if o.ok {
			if isClaimed {
				nDis++
			}
			if f, isKF := openFinding[o.base]; isKF {
				fmt.Printf("NOTE: known finding no longer reproduces: property=%s %s (%s)\n", id, o.base, f.What)
			}
			continue
		}
		if f, isKF := openFinding[o.base]; isKF {
			knownHit = append(knownHit, o.base)
			fmt.Printf("KNOWN-FINDING: property=%s %s %s\n", id, o.base, f.What)
			continue
		}
		switch {
		case isClaimed:
			report(o, "claimed obligation no longer discharges")
		case o.status == "sat" && !o.expectSat:
			report(o, "new obligation refuted by the solver")
		case strings.Contains(o.name, "#frame:global:") && claimedFunc(claimed, o.fn):
			// the goal of this obligation is "false": it can only be discharged when the write is
			// unreachable, so an undischarged one means the function now writes a package-level variable
			report(o, "a function under contract writes a package-level variable")
		case o.expectSat && claimedFunc(claimed, o.fn):
			report(o, "vacuity guard failed (contract or path became contradictory)")
		default:
			unproved = append(unproved, o.name+" ["+o.status+"]")
			if o.kind == "post" {
				assumed["postcondition written but NOT discharged; callers under contract assume it: "+o.name] = true
			}
			if o.kind == "pre" {
				assumed["callee precondition NOT established at this call (nothing proved after it in the same function is claimed): "+o.name] = true
			}
		}
	}
	for _, k := range missingFuncs {
		// a function under contract disappeared (renamed / removed): its contract is orphaned
		fmt.Fprintf(os.Stderr, "note: function %s not found; its contract is orphaned\n", k)
		hasClaim := false
		for c := range claimed {
			if strings.HasPrefix(c, k+"#") {
				hasClaim = true
			}
		}
		if hasClaim {
			o := oblRes{name: k + "#missing", fn: k, status: "function under contract not found", kind: "missing"}
			report(o, "function under contract no longer exists")
		}
	}
	for _, p := range engineProblems {
		fmt.Fprintf(os.Stderr, "engine problem: %s\n", p)
	}
	var missingClaims []string
	for c := range claimed {
		if !seenClaim[c] {
			skip := false
			for _, k := range missingFuncs {
				if strings.HasPrefix(c, k+"#") {
					skip = true
				}
			}
			if !skip {
				missingClaims = append(missingClaims, c)
			}
		}
	}
	sort.Strings(missingClaims)
	// contract-level claimed obligations that are no longer generated mean that the claimed
	// statement is no longer checked: report (safety obligations may legitimately disappear)
	for _, c := range missingClaims {
		if strings.Contains(c, "#post:") {
			o := oblRes{name: c, base: c, fn: strings.SplitN(c, "#", 2)[0], status: "not generated", kind: "missing"}
			report(o, "claimed contract obligation is no longer generated from the code")
		}
	}

	// ---- evidence
	var asm []string
	for k := range assumed {
		asm = append(asm, k)
	}
	sort.Strings(asm)
	asm = append(asm,
		"int/int64 arithmetic is mathematical (no 64-bit overflow); 8/16/32-bit results carry range obligations",
		"float values are uninterpreted; heuristics cannot influence a proved obligation",
		"termination is not proved unless a loop has a decreases clause",
		"go/ssa (x/tools v0.29.0) faithfully represents the compiled source; z3/cvc5 are sound",
		"goroutines: no interleaving semantics; spawn havocs all memory",
		"entry-point requires clauses are assumed (listed per function in the contract files)")
	asm = append(asm, claims.NotCovered...)
	ev := map[string]interface{}{
		"property_id": id, "tier": *tier, "seed": seed, "level": "proof",
		"coverage": map[string]interface{}{
			"obligations": nObl, "discharged": nDis,
			"checker_cmd":            fmt.Sprintf("bin/govc check -property %s -tier %s  (VCs from go/ssa of /repo, discharged by z3-new 5.1.0 | z3 4.8.12 | cvc5 1.0, first unsat wins, %ds per obligation, %d seed(s))", id, *tier, timeout, len(seeds)),
			"trusted_base":           []string{"govc VC generator (/verif/govc)", "golang.org/x/tools/go/ssa v0.29.0", "z3 5.1.0 / z3 4.8.12 / cvc5 1.0", "prelude axioms (/verif/govc/prelude.smt2; lemma obligations in /verif/lemmas)"},
			"functions":              fevs,
			"unproved_unclaimed":     unproved,
			"claimed_not_generated":  missingClaims,
			"known_findings_hit":     knownHit,
			"contracts_from_overlay": eng.overlayed,
			"samples":                samples,
			"engine_problems":        engineProblems,
			"explanation":            "each claimed obligation is one SMT query (definitions of the function's SSA + contract assumptions + negated goal) that returned unsat on every seed; obligations listed under unproved_unclaimed are contracts written but not discharged and are not counted",
		},
		"assumptions": asm,
		"wall_s":      time.Since(start).Seconds(),
		"violations":  violations,
	}
	if !*noEvidence {
		os.MkdirAll(filepath.Join(verifDir(), "evidence"), 0o755)
		data, _ := json.MarshalIndent(ev, "", " ")
		os.WriteFile(filepath.Join(verifDir(), "evidence", id+".json"), append(data, '\n'), 0o644)
	}
	fmt.Printf("%s %s: %d/%d claimed obligations discharged over %d functions; %d violations; %d unclaimed undischarged; %.1fs\n", id, *tier, nDis, nObl, len(fevs), violations, len(unproved), time.Since(start).Seconds())
	if nObl == 0 {
		fmt.Fprintln(os.Stderr, "no obligations generated: check is vacuous")
		return 2
	}
	if violations > 0 {
		return 1
	}
	return 0
}

func claimedFunc(claimed map[string]bool, fn string) bool {
	for c := range claimed {
		if strings.HasPrefix(c, fn+"#") {
			return true
		}
	}
	return false
}

func trunc(s string, n int) string {
	if len(s) > n {
		return s[:n] + "..."
	}
	return s
}

type Cex struct {
	Input     interface{}
	Test      string
	Output    string
	Confirmed bool
}

// tryReplay is filled in by replay.go (counterexample replay for functions with scalar / slice inputs).
var tryReplay = func(eng *Engine, prop, fn, obl, model string) *Cex { return nil }
