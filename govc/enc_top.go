package main

import (
	"fmt"
	"go/token"
	"go/types"

	"golang.org/x/tools/go/ssa"
)

// ---------------------------------------------------------------- name resolution

// headerEnv builds the environment in which a loop invariant is evaluated:
// header phis are bound to the given values, other names resolve to their
// nearest dominating definition.
func (a *Act) headerEnv(li *loopInfo, phis map[*ssa.Phi]Val, st *State) *Env {
	e := a.baseEnv(st)
	e.loop = li
	e.resolve = func(name string) (Val, bool) {
		return a.resolveAtHeader(li, phis, name, st)
	}
	return e
}

func (a *Act) baseEnv(st *State) *Env {
	e := &Env{a: a, vars: map[string]Val{}, st: st, old: a.root().entry, pkg: a.fn.Pkg, fn: a.fn}
	if e.pkg == nil && a.fn.Origin() != nil {
		e.pkg = a.fn.Origin().Pkg
	}
	if e.pkg == nil && a.fn.Parent() != nil {
		e.pkg = a.fn.Parent().Pkg
	}
	return e
}

func debugName(d *ssa.DebugRef) string {
	if o := d.Object(); o != nil {
		if v, ok := o.(*types.Var); ok && v.IsField() {
			return "" // a field selection x.f is not the local variable f
		}
		return o.Name()
	}
	return ""
}

// evalInHeader evaluates a value defined inside the loop header (before the
// branch) under a given binding of the header phis.
func (a *Act) evalInHeader(li *loopInfo, phis map[*ssa.Phi]Val, v ssa.Value, st *State) (Val, bool) {
	switch x := v.(type) {
	case *ssa.Phi:
		if x.Block() == li.header {
			pv, ok := phis[x]
			return pv, ok
		}
	case *ssa.Const:
		return a.constVal(x), true
	case *ssa.BinOp:
		if x.Block() == li.header {
			l, ok1 := a.evalInHeader(li, phis, x.X, st)
			r, ok2 := a.evalInHeader(li, phis, x.Y, st)
			if ok1 && ok2 && l.Sort == SortInt && r.Sort == SortInt {
				switch x.Op {
				case token.ADD:
					return Val{Sort: SortInt, T: x.Type(), Term: app("+", l.Term, r.Term)}, true
				case token.SUB:
					return Val{Sort: SortInt, T: x.Type(), Term: app("-", l.Term, r.Term)}, true
				}
			}
			return Val{}, false
		}
	}
	if in, ok := v.(ssa.Instruction); ok && in.Block() == li.header {
		return Val{}, false
	}
	if val, ok := a.vals[v]; ok {
		return val, true
	}
	if _, ok := v.(*ssa.Parameter); ok {
		return a.val(v), true
	}
	if _, ok := v.(*ssa.FreeVar); ok {
		return a.val(v), true
	}
	return Val{}, false
}

func (a *Act) resolveAtHeader(li *loopInfo, phis map[*ssa.Phi]Val, name string, st *State) (Val, bool) {
	h := li.header
	// 1. header phi named after the variable
	for _, phi := range a.headerPhis(h) {
		if phi.Comment == name {
			v, ok := phis[phi]
			return v, ok
		}
	}
	// special: index of a range loop ("next" index)
	if name == "rangei" {
		for _, phi := range a.headerPhis(h) {
			if phi.Comment == "rangeindex" {
				return Val{Sort: SortInt, T: types.Typ[types.Int], Term: app("+", phis[phi].Term, "1")}, true
			}
		}
	}
	// 2. a variable whose value is computed in the header from the phis (range key)
	for b := range li.blocks {
		for _, in := range b.Instrs {
			d, ok := in.(*ssa.DebugRef)
			if !ok || d.IsAddr || debugName(d) != name {
				continue
			}
			if vi, ok := d.X.(ssa.Instruction); ok && vi.Block() == h {
				if v, ok := a.evalInHeader(li, phis, d.X, st); ok {
					return v, true
				}
			}
		}
	}
	// 3. nearest dominating definition
	if v, ok := a.resolveDom(h.Idom(), name, st); ok {
		return v, true
	}
	return Val{}, false
}

// resolveDom looks for the value of a source variable along the dominator chain.
func (a *Act) resolveDom(b *ssa.BasicBlock, name string, st *State) (Val, bool) {
	for ; b != nil; b = b.Idom() {
		start := len(b.Instrs) - 1
		if b == a.curBlk && a.curIdx <= start {
			start = a.curIdx - 1 // only what has been executed so far in the current block
		}
		for i := start; i >= 0; i-- {
			switch d := b.Instrs[i].(type) {
			case *ssa.DebugRef:
				if debugName(d) != name {
					continue
				}
				if d.IsAddr {
					p := a.val(d.X)
					return a.loadLoc(st, a.objLoc(p)), true
				}
				return a.val(d.X), true
			case *ssa.Phi:
				if d.Comment == name {
					if v, ok := a.vals[d]; ok {
						return v, true
					}
				}
			}
		}
	}
	if v, ok := a.params[name]; ok {
		return v, true
	}
	// named results and other address-taken locals
	for _, l := range a.fn.Locals {
		if l.Comment == name {
			if p, ok := a.vals[l]; ok {
				return a.loadLoc(st, a.objLoc(p)), true
			}
		}
	}
	for _, fv := range a.fn.FreeVars {
		if fv.Name() == name {
			p := a.val(fv)
			if _, isPtr := fv.Type().(*types.Pointer); isPtr {
				return a.loadLoc(st, a.objLoc(p)), true
			}
			return p, true
		}
	}
	return Val{}, false
}

// ---------------------------------------------------------------- top level

type FuncResult struct {
	Key         string
	VC          *VC
	Unsupported []string
	SpecErrs    []string
	Contract    *Contract
	NoContract  bool
}

func (eng *Engine) encodeFunc(fn *ssa.Function, ct *Contract) *FuncResult {
	key := fullName(fn)
	vc := newVC(eng, key)
	a := &Act{
		vc: vc, fn: fn, mode: modeVerify, contract: ct,
		vals: map[ssa.Value]Val{}, params: map[string]Val{}, ghosts: map[string]Val{},
		in: map[*ssa.BasicBlock]*State{}, out: map[*ssa.BasicBlock]*State{}, edge: map[[2]int]string{},
		callCnt: map[string]int{}, inlCnt: map[string]int{},
	}
	res := &FuncResult{Key: key, VC: vc, Contract: ct}
	entry := &State{mem: newMem(), reach: "true"}
	a.entry = entry
	a.allocE = vc.compInit("alloc", SortInt)
	a.predeclare()
	vc.started = true
	vc.curBlk = -1
	vc.header = append(vc.header, "(assert (<= 1 |alloc@0|))")
	// parameters
	for _, p := range fn.Params {
		v := a.freshVal(p.Type(), "p_"+p.Name(), entry)
		a.vals[p] = v
		a.params[p.Name()] = v
	}
	for _, fv := range fn.FreeVars {
		a.vals[fv] = a.freshVal(fv.Type(), "fv_"+fv.Name(), entry)
	}
	if ct != nil {
		ct.Used = true
		for _, g := range ct.Ghosts {
			s := ghostSort(g.Type)
			gv := Val{Sort: s, Term: vc.declare("ghost_"+g.Name, s)}
			if gt := a.baseEnv(entry).lookupType(g.Type); gt != nil {
				// a ghost of a Go type (e.g. *Clause): typed like a parameter
				if gs, ok := vc.sortOf(gt); ok {
					gv = a.freshVal(gt, "ghost_"+g.Name, entry)
					_ = gs
				}
			}
			a.ghosts[g.Name] = gv
			if s == SortAsg {
				vc.assume("true", app("asgmark", a.ghosts[g.Name].Term))
			}
		}
		env := a.baseEnv(entry)
		env.vars = a.paramVars()
		for _, r := range ct.Requires {
			vc.assume("true", env.evalBool(r.Expr))
		}
		a.funcMods = a.evalModItems(ct.Modifies, env)
		a.hasMods = true
	}
	// vacuity: the precondition must be satisfiable
	o := vc.oblige("reach", "pre", "true", "false", "precondition and type invariants are satisfiable", a.posOf(fn.Pos()))
	if o != nil {
		o.ExpectSat = true
	}
	a.run()
	// postconditions
	nres := fn.Signature.Results().Len()
	for ri, r := range a.returns {
		if ct == nil {
			break
		}
		if r.blk != nil {
			vc.curBlk = r.blk.Index
		}
		env := a.baseEnv(r.st)
		env.vars = a.paramVars()
		if nres == 1 {
			env.vars["result"] = r.vals[0]
		}
		for i := 0; i < nres; i++ {
			env.vars[fmt.Sprintf("result%d", i)] = r.vals[i]
			if n := fn.Signature.Results().At(i).Name(); n != "" && n != "_" {
				env.vars[n] = r.vals[i]
			}
		}
		// exit assertions (lemma hints at the return point): proved, then assumed
		for _, as := range ct.Asserts {
			if as.Label != "exit" {
				continue
			}
			e2 := *env
			blk := r.blk
			st := r.st
			e2.resolve = func(name string) (Val, bool) { return a.resolveDom(blk, name, st) }
			t := e2.evalBool(as.Expr)
			lbl := as.Name
			if len(a.returns) > 1 {
				lbl = fmt.Sprintf("%s@ret%d", as.Name, ri+1)
			}
			vc.oblige("assert", lbl, r.guard, t, as.Src, a.posOf(fn.Pos()))
			vc.assume(r.guard, t)
		}
		for _, en := range ct.Ensures {
			lbl := en.Name
			if len(a.returns) > 1 {
				lbl = fmt.Sprintf("%s@ret%d", en.Name, ri+1)
			}
			vc.oblige("post", lbl, r.guard, env.evalBool(en.Expr), en.Src, a.posOf(fn.Pos()))
		}
	}
	// vacuity: every return point is reachable under the contract (a return made unreachable by a
	// contradictory callee contract or invariant would make its postconditions hold vacuously)
	if len(a.returns) > 1 {
		for ri, r := range a.returns {
			o := vc.oblige("reach", fmt.Sprintf("ret%d", ri+1), r.guard, "false", "return point is reachable under the contract", a.posOf(fn.Pos()))
			if o != nil {
				o.ExpectSat = true
			}
		}
	}
	// vacuity: some return is reachable
	if len(a.returns) > 0 {
		var gs []string
		for _, r := range a.returns {
			gs = append(gs, r.guard)
		}
		o := vc.oblige("reach", "exit", or(gs...), "false", "function exit is reachable under the contract", a.posOf(fn.Pos()))
		if o != nil {
			o.ExpectSat = true
		}
	}
	res.Unsupported = a.unsupported
	res.SpecErrs = vc.specErrs
	return res
}

func (a *Act) paramVars() map[string]Val {
	m := map[string]Val{}
	for k, v := range a.params {
		m[k] = v
	}
	return m
}
