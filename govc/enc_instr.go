package main

import (
	"fmt"
	"go/constant"
	"go/token"
	"go/types"
	"math/big"
	"strings"

	"golang.org/x/tools/go/ssa"
)

func (a *Act) safe(kind, label, goal, src string, pos token.Pos) {
	if a.dry || a.mode == modeSpec {
		return
	}
	if a.label != "" {
		label = a.label + label
	}
	a.vc.oblige("safe:"+kind, label, a.cur.reach, goal, src, a.posOf(pos))
	// an execution in which the check fails panics here and never reaches what follows:
	// everything after this point is about executions in which it held
	if goal != "false" {
		a.vc.assume(a.cur.reach, goal)
	}
}

func exprText(fn *ssa.Function, v ssa.Value) string {
	// a stable, line-independent description of a value: the name of the source
	// variable if known, else the SSA type
	switch x := v.(type) {
	case *ssa.Parameter:
		return x.Name()
	case *ssa.Const:
		return x.Value.String()
	case *ssa.Phi:
		return x.Comment
	case *ssa.FieldAddr:
		st := x.X.Type().Underlying().(*types.Pointer).Elem().Underlying().(*types.Struct)
		return exprText(fn, x.X) + "." + st.Field(x.Field).Name()
	case *ssa.Field:
		st := x.X.Type().Underlying().(*types.Struct)
		return exprText(fn, x.X) + "." + st.Field(x.Field).Name()
	case *ssa.UnOp:
		if x.Op == token.MUL {
			return exprText(fn, x.X)
		}
		return x.Op.String() + exprText(fn, x.X)
	case *ssa.IndexAddr:
		return exprText(fn, x.X) + "[" + exprText(fn, x.Index) + "]"
	case *ssa.Index:
		return exprText(fn, x.X) + "[" + exprText(fn, x.Index) + "]"
	case *ssa.BinOp:
		return "(" + exprText(fn, x.X) + x.Op.String() + exprText(fn, x.Y) + ")"
	case *ssa.Call:
		if c := x.Call.StaticCallee(); c != nil {
			return c.Name() + "()"
		}
		if b, ok := x.Call.Value.(*ssa.Builtin); ok {
			var as []string
			for _, g := range x.Call.Args {
				as = append(as, exprText(fn, g))
			}
			return b.Name() + "(" + strings.Join(as, ",") + ")"
		}
		return "call"
	case *ssa.Slice:
		return exprText(fn, x.X) + "[:]"
	case *ssa.Convert:
		return exprText(fn, x.X)
	case *ssa.ChangeType:
		return exprText(fn, x.X)
	case *ssa.Alloc:
		if x.Comment != "" {
			return x.Comment
		}
	case *ssa.Global:
		return x.Name()
	case *ssa.Extract:
		return exprText(fn, x.Tuple) + fmt.Sprintf("#%d", x.Index)
	}
	return "_"
}

func (a *Act) instr(in ssa.Instruction) {
	if v, ok := in.(ssa.Value); ok {
		a.curSite = v
	} else {
		a.curSite = nil
	}
	switch x := in.(type) {
	case *ssa.DebugRef:
		return
	case *ssa.Phi:
		return // handled at block entry
	case *ssa.BinOp:
		a.vals[x] = a.binop(x)
	case *ssa.UnOp:
		a.vals[x] = a.unop(x)
	case *ssa.Alloc:
		t := x.Type().(*types.Pointer).Elem()
		if at, ok := t.Underlying().(*types.Array); ok {
			// arrays live in the element heap so that they can be sliced
			sl := a.makeSlice(a.cur, at.Elem(), fmt.Sprint(at.Len()), fmt.Sprint(at.Len()), "newarr_"+x.Name())
			a.vals[x] = Val{Sort: SortInt, T: x.Type(), Term: a.vc.define("arrref", SortInt, sArr(sl))}
			break
		}
		r := a.allocObject(a.cur, t, "new_"+x.Name())
		a.vals[x] = Val{Sort: SortInt, T: x.Type(), Term: r}
	case *ssa.FieldAddr:
		p := a.val(x.X)
		if _, isAlloc := x.X.(*ssa.Alloc); p.Loc == nil && !isAlloc {
			a.safe("nil", exprText(a.fn, x), app("not", app("=", p.Term, "0")), "nil dereference", x.Pos())
		}
		l := a.objLoc(p)
		a.vals[x] = Val{T: x.Type(), Loc: l.sub(x.Field)}
	case *ssa.Field:
		sv := a.val(x.X)
		if !sv.Comp || x.Field >= len(sv.Fields) {
			a.unsup("field of non-composite")
			a.vals[x] = a.freshVal(x.Type(), "fld", a.cur)
		} else {
			a.vals[x] = sv.Fields[x.Field]
		}
	case *ssa.IndexAddr:
		a.vals[x] = a.indexAddr(x)
	case *ssa.Index:
		a.vals[x] = a.indexVal(x)
	case *ssa.Store:
		addr := a.val(x.Addr)
		v := a.val(x.Val)
		if _, isAlloc := x.Addr.(*ssa.Alloc); addr.Loc == nil && !isAlloc {
			a.safe("nil", exprText(a.fn, x.Addr), app("not", app("=", addr.Term, "0")), "nil dereference", x.Pos())
		}
		a.storeLoc(a.cur, a.objLoc(addr), v, a.posOf(x.Pos()))
	case *ssa.Slice:
		a.vals[x] = a.sliceOp(x)
	case *ssa.MakeSlice:
		ln := a.val(x.Len).Term
		cp := a.val(x.Cap).Term
		a.safe("makeslice", exprText(a.fn, x.Len), and(app("<=", "0", ln), app("<=", ln, cp)), "make: 0 <= len <= cap", x.Pos())
		el := x.Type().Underlying().(*types.Slice).Elem()
		a.vals[x] = Val{Sort: SortSlice, T: x.Type(), Term: a.makeSlice(a.cur, el, ln, cp, "mk_"+x.Name())}
	case *ssa.MakeMap:
		r := a.newRef(a.cur, "map_"+x.Name())
		mt := x.Type().Underlying().(*types.Map)
		a.mapInit(a.cur, mt, r)
		a.vals[x] = Val{Sort: SortInt, T: x.Type(), Term: r}
	case *ssa.MakeChan:
		r := a.newRef(a.cur, "chan_"+x.Name())
		a.chanSet(a.cur, "ghost:chan.closed", r, "false")
		a.vals[x] = Val{Sort: SortInt, T: x.Type(), Term: r}
	case *ssa.Convert:
		a.vals[x] = a.convert(x)
	case *ssa.ChangeType:
		v := a.val(x.X)
		v.T = x.Type()
		a.vals[x] = v
	case *ssa.ChangeInterface:
		v := a.val(x.X)
		v.T = x.Type()
		a.vals[x] = v
	case *ssa.MakeInterface:
		// only nil-ness of interface values is tracked
		v := a.vc.declare("iface_"+x.Name(), SortInt)
		a.vc.assume("true", app("<", "0", v))
		a.vals[x] = Val{Sort: SortInt, T: x.Type(), Term: v}
	case *ssa.TypeAssert:
		a.unsup("type assertion")
		a.vals[x] = a.freshVal(x.Type(), "ta", a.cur)
	case *ssa.Extract:
		tv := a.val(x.Tuple)
		if !tv.Comp || x.Index >= len(tv.Fields) {
			a.unsup("extract from non-tuple")
			a.vals[x] = a.freshVal(x.Type(), "ext", a.cur)
		} else {
			a.vals[x] = tv.Fields[x.Index]
		}
	case *ssa.Call:
		a.vals[x] = a.call(x, &x.Call, x.Type())
	case *ssa.Lookup:
		a.vals[x] = a.lookup(x)
	case *ssa.MapUpdate:
		a.mapUpdate(x)
	case *ssa.Range:
		a.vals[x] = a.rangeStart(x)
	case *ssa.Next:
		a.vals[x] = a.rangeNext(x)
	case *ssa.Send:
		a.send(x)
	case *ssa.Select:
		a.unsup("select")
		a.vals[x] = a.freshVal(x.Type(), "sel", a.cur)
	case *ssa.Go:
		a.goStmt(x)
	case *ssa.Defer:
		var args []Val
		for _, g := range x.Call.Args {
			args = append(args, a.val(g))
		}
		if a.inLoop[a.curBlk] != nil {
			a.unsup("defer inside loop")
		}
		a.defers = append(a.defers, deferInfo{instr: x, args: args, guard: a.cur.reach, blk: a.curBlk})
	case *ssa.RunDefers:
		for i := len(a.defers) - 1; i >= 0; i-- {
			d := a.defers[i]
			a.runDefer(d)
		}
	case *ssa.MakeClosure:
		// value only meaningful for go/defer statements handled separately
		a.vals[x] = Val{Sort: SortInt, T: x.Type(), Term: "1"}
	case *ssa.Panic:
		a.safe("panic", "", "false", "explicit panic must be unreachable", x.Pos())
	case *ssa.Jump:
		a.addEdge(a.curBlk, a.curBlk.Succs[0], a.cur.reach)
	case *ssa.If:
		c := a.val(x.Cond).Term
		a.addEdge(a.curBlk, a.curBlk.Succs[0], a.vc.define("e", SortBool, and(a.cur.reach, c)))
		a.addEdge(a.curBlk, a.curBlk.Succs[1], a.vc.define("e", SortBool, and(a.cur.reach, not(c))))
	case *ssa.Return:
		var vs []Val
		for _, r := range x.Results {
			vs = append(vs, a.val(r))
		}
		a.returns = append(a.returns, retInfo{guard: a.cur.reach, st: a.cur.clone(), vals: vs, blk: a.curBlk})
	default:
		a.unsup("instruction %T", in)
		if v, ok := in.(ssa.Value); ok {
			a.vals[v] = a.freshVal(v.Type(), "unk", a.cur)
		}
	}
}

func (a *Act) addEdge(from, to *ssa.BasicBlock, cond string) {
	if isBackEdge(from, to) {
		if li := a.loops[to]; li != nil {
			a.backEdge(from, li, cond)
		}
		return
	}
	a.edge[[2]int{from.Index, to.Index}] = cond
}

// ---------------------------------------------------------------- arithmetic

func pow2(n uint) *big.Int { return new(big.Int).Lsh(big.NewInt(1), n) }

func constInt(v ssa.Value) (*big.Int, bool) {
	c, ok := v.(*ssa.Const)
	if !ok || c.Value == nil || c.Value.Kind() != constant.Int {
		return nil, false
	}
	b, ok := new(big.Int).SetString(c.Value.ExactString(), 10)
	return b, ok
}

func bigTerm(b *big.Int) string {
	if b.Sign() < 0 {
		return "(- " + new(big.Int).Neg(b).String() + ")"
	}
	return b.String()
}

// andConst encodes x & c for a non-negative constant c (two's complement x).
func andConst(x string, c *big.Int) string {
	if c.Sign() == 0 {
		return "0"
	}
	var parts []string
	n := c.BitLen()
	i := 0
	for i < n {
		if c.Bit(i) == 0 {
			i++
			continue
		}
		j := i
		for j < n && c.Bit(j) == 1 {
			j++
		}
		// bits [i,j)
		lo := pow2(uint(i))
		w := pow2(uint(j - i))
		t := x
		if i > 0 {
			t = app("div", x, lo.String())
		}
		t = app("mod", t, w.String())
		if i > 0 {
			t = app("*", t, lo.String())
		}
		parts = append(parts, t)
		i = j
	}
	if len(parts) == 1 {
		return parts[0]
	}
	return app("+", parts...)
}

func typeBits(t types.Type) (bits uint, signed bool) {
	b, ok := t.Underlying().(*types.Basic)
	if !ok {
		return 64, true
	}
	switch b.Kind() {
	case types.Int8:
		return 8, true
	case types.Int16:
		return 16, true
	case types.Int32:
		return 32, true
	case types.Int64, types.Int, types.UntypedInt:
		return 64, true
	case types.Uint8:
		return 8, false
	case types.Uint16:
		return 16, false
	case types.Uint32:
		return 32, false
	case types.Uint64, types.Uint, types.Uintptr:
		return 64, false
	}
	return 64, true
}

// bitConst returns x OP c for OP in & | ^ &^ with constant c, interpreting c in
// the width of type t (so that ^mask constants work).
func (a *Act) bitConst(op token.Token, x string, c *big.Int, t types.Type) (string, bool) {
	bits, signed := typeBits(t)
	full := new(big.Int).Sub(pow2(bits), big.NewInt(1))
	cc := new(big.Int).Set(c)
	neg := false
	if cc.Sign() < 0 {
		// two's complement constant: c = -(~c)-1 ; x & c = x - (x & ~c)
		neg = true
		cc = new(big.Int).Not(cc) // ~c >= 0
	}
	_ = full
	_ = signed
	switch op {
	case token.AND:
		if neg {
			return sub(x, andConst(x, cc)), true
		}
		return andConst(x, cc), true
	case token.AND_NOT:
		if neg {
			// x &^ c = x & ~c
			return andConst(x, cc), true
		}
		return sub(x, andConst(x, cc)), true
	case token.OR:
		if neg {
			// x | c = c + (x & ~c) ... with c negative: x|c = c + (x & ~c)
			return add(bigTerm(c), andConst(x, cc)), true
		}
		return sub(add(x, bigTerm(cc)), andConst(x, cc)), true
	case token.XOR:
		if neg {
			// x ^ c = ~(x ^ ~c) = -(x ^ ~c) - 1
			inner := sub(add(x, bigTerm(cc)), app("*", "2", andConst(x, cc)))
			return sub(app("-", inner), "1"), true
		}
		return sub(add(x, bigTerm(cc)), app("*", "2", andConst(x, cc))), true
	}
	return "", false
}

func (a *Act) rangeOblige(v string, t types.Type, what string, pos token.Pos, src string) {
	if is64(t) {
		return // 64-bit arithmetic is treated as mathematical (stated assumption)
	}
	lo, hi, ok := intRange(t)
	if !ok {
		return
	}
	a.safe("range", what, and(app("<=", lo, v), app("<=", v, hi)), src+" stays within "+typeName(t), pos)
}

func (a *Act) binop(x *ssa.BinOp) Val {
	l, r := a.val(x.X), a.val(x.Y)
	t := x.Type()
	rs, _ := a.vc.sortOf(t)
	mk := func(term string) Val {
		return Val{Sort: rs, T: t, Term: a.vc.define(x.Name(), rs, term)}
	}
	// comparisons
	switch x.Op {
	case token.EQL, token.NEQ:
		var eq string
		if l.Comp || r.Comp {
			fl, fr := flattenVal(l), flattenVal(r)
			var cs []string
			for i := range fl {
				if i < len(fr) {
					cs = append(cs, app("=", fl[i].Term, fr[i].Term))
				}
			}
			eq = and(cs...)
		} else if l.Loc != nil || r.Loc != nil {
			a.unsup("comparison of interior pointers")
			eq = a.vc.declare("cmp", SortBool)
		} else if l.Sort == SortSlice {
			// only comparison against nil is legal
			// only comparison against nil is legal for slices
			nonNil := l
			if c, isC := x.X.(*ssa.Const); isC && c.Value == nil {
				nonNil = r
			}
			eq = app("=", sArr(nonNil.Term), "0")
		} else if l.Sort == SortFlt {
			eq = a.vc.declare("fcmp", SortBool)
		} else {
			eq = app("=", l.Term, r.Term)
		}
		if x.Op == token.NEQ {
			eq = not(eq)
		}
		return mk(eq)
	case token.LSS, token.LEQ, token.GTR, token.GEQ:
		if l.Sort != SortInt {
			return Val{Sort: SortBool, T: t, Term: a.vc.declare("fcmp", SortBool)}
		}
		op := map[token.Token]string{token.LSS: "<", token.LEQ: "<=", token.GTR: ">", token.GEQ: ">="}[x.Op]
		return mk(app(op, l.Term, r.Term))
	}
	switch rs {
	case SortBool:
		switch x.Op {
		case token.AND, token.LAND:
			return mk(and(l.Term, r.Term))
		case token.OR, token.LOR:
			return mk(or(l.Term, r.Term))
		case token.XOR:
			return mk(app("xor", l.Term, r.Term))
		}
	case SortFlt:
		return Val{Sort: SortFlt, T: t, Term: a.vc.declare("f_"+x.Name(), SortFlt)}
	case SortStr:
		if x.Op == token.ADD {
			v := mk(app("str-cat", l.Term, r.Term))
			return v
		}
	case SortInt:
		var term string
		src := exprText(a.fn, x)
		switch x.Op {
		case token.ADD:
			term = app("+", l.Term, r.Term)
		case token.SUB:
			term = app("-", l.Term, r.Term)
		case token.MUL:
			term = app("*", l.Term, r.Term)
		case token.QUO:
			if c, ok := constInt(x.Y); !ok || c.Sign() == 0 {
				a.safe("div", src, not(app("=", r.Term, "0")), "division by zero", x.Pos())
			}
			term = app("tdiv", l.Term, r.Term)
		case token.REM:
			if c, ok := constInt(x.Y); !ok || c.Sign() == 0 {
				a.safe("div", src, not(app("=", r.Term, "0")), "division by zero", x.Pos())
			}
			term = app("tmod", l.Term, r.Term)
		case token.AND, token.OR, token.XOR, token.AND_NOT:
			if c, ok := constInt(x.Y); ok {
				term, _ = a.bitConst(x.Op, l.Term, c, t)
			} else if c, ok := constInt(x.X); ok && x.Op != token.AND_NOT {
				term, _ = a.bitConst(x.Op, r.Term, c, t)
			} else if sh, other, ok := singleBitMask(x.X, x.Y); ok && x.Op == token.AND {
				// x & (1 << j): bit j of x, kept in place
				j := a.val(sh).Term
				xo := a.val(other).Term
				term = ite(app("=", app("mod", app("div", xo, app("pow2", j)), "2"), "1"), app("pow2", j), "0")
			} else {
				a.vc.note("bit operation with two variable operands abstracted: " + src)
				fv := a.freshVal(t, "bitop", a.cur)
				return fv
			}
		case token.SHL:
			if c, ok := constInt(x.Y); ok && c.IsInt64() && c.Int64() < 64 {
				term = app("*", l.Term, pow2(uint(c.Int64())).String())
			} else {
				a.safe("shift", src, app("<=", "0", r.Term), "negative shift count", x.Pos())
				term = app("*", l.Term, app("pow2", r.Term))
			}
		case token.SHR:
			if c, ok := constInt(x.Y); ok && c.IsInt64() && c.Int64() < 64 {
				term = app("div", l.Term, pow2(uint(c.Int64())).String())
			} else {
				a.safe("shift", src, app("<=", "0", r.Term), "negative shift count", x.Pos())
				term = app("div", l.Term, app("pow2", r.Term))
			}
		}
		if term != "" {
			if bits, signed := typeBits(t); !signed && bits < 64 {
				switch x.Op {
				case token.ADD, token.SUB, token.MUL, token.SHL:
					// unsigned arithmetic wraps around (exact Go semantics, no obligation)
					return mk(app("mod", term, pow2(bits).String()))
				}
				return mk(term)
			}
			v := mk(term)
			switch x.Op {
			case token.ADD, token.SUB, token.MUL, token.SHL, token.QUO:
				a.rangeOblige(v.Term, t, src, x.Pos(), src)
			}
			return v
		}
	}
	a.unsup("binary operator %s on %s", x.Op, t)
	return a.freshVal(t, "binop", a.cur)
}

func (a *Act) unop(x *ssa.UnOp) Val {
	v := a.val(x.X)
	t := x.Type()
	switch x.Op {
	case token.MUL: // load
		if _, isAlloc := x.X.(*ssa.Alloc); v.Loc == nil && !isAlloc {
			a.safe("nil", exprText(a.fn, x.X), app("not", app("=", v.Term, "0")), "nil dereference", x.Pos())
		}
		lv := a.loadLoc(a.cur, a.objLoc(v))
		if g, isG := x.X.(*ssa.Global); isG && g.Pkg != nil && !strings.HasPrefix(g.Pkg.Pkg.Path(), "github.com/crillab/gophersat") && lv.Sort == SortInt && types.IsInterface(g.Type().(*types.Pointer).Elem()) {
			// sentinel error values of the standard library (io.EOF, ...) are non-nil and never reassigned
			a.vc.assume("true", not(app("=", lv.Term, "0")))
			a.vc.assumed["sentinel error variables of external packages are non-nil and never reassigned: "+g.Pkg.Pkg.Path()+"."+g.Name()] = true
		}
		return lv
	case token.NOT:
		return Val{Sort: SortBool, T: t, Term: a.vc.define(x.Name(), SortBool, not(v.Term))}
	case token.SUB:
		if v.Sort == SortFlt {
			return Val{Sort: SortFlt, T: t, Term: a.vc.declare("fneg", SortFlt)}
		}
		r := Val{Sort: SortInt, T: t, Term: a.vc.define(x.Name(), SortInt, app("-", v.Term))}
		a.rangeOblige(r.Term, t, "-"+exprText(a.fn, x.X), x.Pos(), "negation")
		return r
	case token.XOR:
		// ^x = -x-1 (signed) ; for unsigned: max - x
		bits, signed := typeBits(t)
		if signed {
			return Val{Sort: SortInt, T: t, Term: a.vc.define(x.Name(), SortInt, sub(app("-", v.Term), "1"))}
		}
		full := new(big.Int).Sub(pow2(bits), big.NewInt(1))
		return Val{Sort: SortInt, T: t, Term: a.vc.define(x.Name(), SortInt, sub(full.String(), v.Term))}
	case token.ARROW:
		return a.recv(x, v)
	}
	a.unsup("unary operator %s", x.Op)
	return a.freshVal(t, "unop", a.cur)
}

func (a *Act) convert(x *ssa.Convert) Val {
	v := a.val(x.X)
	t := x.Type()
	from, _ := a.vc.sortOf(x.X.Type())
	to, ok := a.vc.sortOf(t)
	if !ok {
		a.unsup("conversion to %s", t)
		return a.freshVal(t, "conv", a.cur)
	}
	switch {
	case from == SortInt && to == SortInt:
		lo, hi, sized := intRange(t)
		if bits, signed := typeBits(t); sized && !signed && bits < 64 {
			// conversion to a small unsigned type wraps (defined behaviour in Go): exact semantics
			flo, fhi, fs := intRange(x.X.Type())
			_, _ = flo, fhi
			if fb, fsg := typeBits(x.X.Type()); fs && !fsg && fb <= bits {
				return Val{Sort: SortInt, T: t, Term: v.Term}
			}
			return Val{Sort: SortInt, T: t, Term: a.vc.define(x.Name(), SortInt, app("mod", v.Term, pow2(bits).String()))}
		}
		if sized {
			// narrowing (or sign-changing) conversions must not lose information
			flo, fhi, fs := intRange(x.X.Type())
			needs := true
			if fs {
				bl, _ := new(big.Int).SetString(strings.Trim(strings.ReplaceAll(strings.ReplaceAll(lo, "(- ", "-"), ")", ""), " "), 10)
				bh, _ := new(big.Int).SetString(hi, 10)
				fl, _ := new(big.Int).SetString(strings.Trim(strings.ReplaceAll(strings.ReplaceAll(flo, "(- ", "-"), ")", ""), " "), 10)
				fh, _ := new(big.Int).SetString(fhi, 10)
				if bl != nil && bh != nil && fl != nil && fh != nil && bl.Cmp(fl) <= 0 && bh.Cmp(fh) >= 0 {
					needs = false
				}
			}
			if needs && is64(t) && is64(x.X.Type()) {
				needs = false // 64-bit to 64-bit: covered by the stated "no 64-bit overflow" assumption
			}
			if needs {
				a.safe("conv", exprText(a.fn, x.X)+"->"+typeName(t), and(app("<=", lo, v.Term), app("<=", v.Term, hi)), "conversion to "+typeName(t)+" must not change the value", x.Pos())
			}
		}
		return Val{Sort: SortInt, T: t, Term: v.Term}
	case from == SortFlt && to == SortFlt:
		return Val{Sort: SortFlt, T: t, Term: v.Term}
	case from == SortInt && to == SortFlt:
		return Val{Sort: SortFlt, T: t, Term: a.vc.declare("i2f", SortFlt)}
	case from == SortFlt && to == SortInt:
		a.vc.note("float to int conversion yields an unconstrained integer")
		return a.freshVal(t, "f2i", a.cur)
	case to == SortStr || from == SortStr:
		return a.freshVal(t, "strconv", a.cur)
	case from == to:
		v.T = t
		return v
	}
	a.unsup("conversion %s -> %s", x.X.Type(), t)
	return a.freshVal(t, "conv", a.cur)
}

// ---------------------------------------------------------------- indexing

func (a *Act) indexAddr(x *ssa.IndexAddr) Val {
	base := a.val(x.X)
	i := a.val(x.Index).Term
	src := exprText(a.fn, x)
	switch u := x.X.Type().Underlying().(type) {
	case *types.Slice:
		a.safe("index", src, and(app("<=", "0", i), app("<", i, sLen(base.Term))), "index in range", x.Pos())
		return Val{T: x.Type(), Loc: a.elemLoc(base, i, u.Elem())}
	case *types.Pointer:
		at, ok := u.Elem().Underlying().(*types.Array)
		if !ok {
			break
		}
		if _, isC := x.Index.(*ssa.Const); !isC {
			a.safe("index", src, and(app("<=", "0", i), app("<", i, fmt.Sprint(at.Len()))), "array index in range", x.Pos())
		}
		if base.Loc == nil {
			// pointer to an array object: the array is a row of the element heap
			if _, isAlloc := x.X.(*ssa.Alloc); !isAlloc {
				a.safe("nil", exprText(a.fn, x.X), app("not", app("=", base.Term, "0")), "nil dereference", x.Pos())
			}
			return Val{T: x.Type(), Loc: &Loc{Kind: "elem", Base: base.Term, Idx: i, Root: "E:" + typeName(at.Elem()), Owner: at.Elem(), T: at.Elem()}}
		}
		l := *a.objLoc(base)
		if l.AIdx != "" {
			a.unsup("nested arrays")
		}
		l.AIdx = i
		return Val{T: x.Type(), Loc: &l}
	}
	a.unsup("IndexAddr on %s", x.X.Type())
	return a.freshVal(x.Type(), "idx", a.cur)
}

func (a *Act) indexVal(x *ssa.Index) Val {
	base := a.val(x.X)
	i := a.val(x.Index).Term
	switch x.X.Type().Underlying().(type) {
	case *types.Basic: // string
		a.safe("index", exprText(a.fn, x), and(app("<=", "0", i), app("<", i, app("str-len", base.Term))), "string index in range", x.Pos())
		v := Val{Sort: SortInt, T: x.Type(), Term: a.vc.define(x.Name(), SortInt, app("str-at", base.Term, i))}
		a.vc.assume(a.cur.reach, a.vc.typeInv(v, ""))
		return v
	case *types.Array:
		return Val{Sort: SortInt, T: x.Type(), Term: sel(base.Term, i)}
	}
	a.unsup("Index on %s", x.X.Type())
	return a.freshVal(x.Type(), "idx", a.cur)
}

func (a *Act) sliceOp(x *ssa.Slice) Val {
	base := a.val(x.X)
	src := exprText(a.fn, x)
	switch u := x.X.Type().Underlying().(type) {
	case *types.Slice:
		lo, hi, mx := "0", sLen(base.Term), sCap(base.Term)
		if x.Low != nil {
			lo = a.val(x.Low).Term
		}
		if x.High != nil {
			hi = a.val(x.High).Term
		}
		if x.Max != nil {
			mx = a.val(x.Max).Term
		}
		a.safe("slice", src, and(app("<=", "0", lo), app("<=", lo, hi), app("<=", hi, mx), app("<=", mx, sCap(base.Term))), "slice bounds in range", x.Pos())
		// s[lo:hi] of a nil slice (lo=hi=0) stays nil
		term := mkSlice(sArr(base.Term), add(sOff(base.Term), lo), sub(hi, lo), sub(mx, lo))
		return Val{Sort: SortSlice, T: x.Type(), Term: a.vc.define(x.Name(), SortSlice, term)}
	case *types.Basic: // string
		lo, hi := "0", app("str-len", base.Term)
		if x.Low != nil {
			lo = a.val(x.Low).Term
		}
		if x.High != nil {
			hi = a.val(x.High).Term
		}
		a.safe("slice", src, and(app("<=", "0", lo), app("<=", lo, hi), app("<=", hi, app("str-len", base.Term))), "string slice bounds in range", x.Pos())
		v := Val{Sort: SortStr, T: x.Type(), Term: a.vc.define(x.Name(), SortStr, app("str-sub", base.Term, lo, hi))}
		a.vc.assume(a.cur.reach, app("=", app("str-len", v.Term), sub(hi, lo)))
		return v
	case *types.Pointer:
		at, ok := u.Elem().Underlying().(*types.Array)
		if ok && base.Loc == nil {
			n := fmt.Sprint(at.Len())
			lo, hi, mx := "0", n, n
			if x.Low != nil {
				lo = a.val(x.Low).Term
			}
			if x.High != nil {
				hi = a.val(x.High).Term
			}
			if x.Max != nil {
				mx = a.val(x.Max).Term
			}
			if x.Low != nil || x.High != nil || x.Max != nil {
				a.safe("slice", src, and(app("<=", "0", lo), app("<=", lo, hi), app("<=", hi, mx), app("<=", mx, n)), "slice bounds in range", x.Pos())
			}
			return Val{Sort: SortSlice, T: x.Type(), Term: a.vc.define(x.Name(), SortSlice, mkSlice(base.Term, lo, sub(hi, lo), sub(mx, lo)))}
		}
		a.unsup("slice of array pointer")
		return a.freshVal(x.Type(), "slc", a.cur)
	}
	a.unsup("Slice on %s", x.X.Type())
	return a.freshVal(x.Type(), "slc", a.cur)
}

// singleBitMask recognises the operands of x & (1 << j) (in either order, through integer
// conversions) and returns the shift count j and the other operand.
func singleBitMask(a, b ssa.Value) (shift ssa.Value, other ssa.Value, ok bool) {
	strip := func(v ssa.Value) ssa.Value {
		for {
			switch c := v.(type) {
			case *ssa.Convert:
				v = c.X
			case *ssa.ChangeType:
				v = c.X
			default:
				return v
			}
		}
	}
	isOneShl := func(v ssa.Value) (ssa.Value, bool) {
		bo, isB := strip(v).(*ssa.BinOp)
		if !isB || bo.Op != token.SHL {
			return nil, false
		}
		if c, isC := constInt(bo.X); isC && c.IsInt64() && c.Int64() == 1 {
			return bo.Y, true
		}
		return nil, false
	}
	if j, y := isOneShl(b); y {
		return j, a, true
	}
	if j, y := isOneShl(a); y {
		return j, b, true
	}
	return nil, nil, false
}
