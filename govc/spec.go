package main

// Specification expression language: Go-like expressions plus
//   ==>  <==>  forall(k, lo, hi, P)  exists(k, lo, hi, P)  forall(k, P)
//   old(e)  ite(c, a, b)  result / result0 / result1 ...
// Parsed by a small Pratt parser into SExpr trees; evaluated by eval.go
// against a symbolic state.

import (
	"fmt"
	"strings"
	"unicode"
)

type SKind int

const (
	SInt SKind = iota
	SBool
	SNil
	SIdent
	SSel    // X.Name
	SIndex  // X[Args[0]]
	SSlice  // X[Args[0]:Args[1]] (nil allowed)
	SCall   // Fun(Args...)  (Fun ident) or method call X.Name(Args)
	SUnary  // Op X
	SBinary // X Op Args[0]
	SQuant  // Name=forall|exists, Vars, Args = [lo, hi, body] or [body]
	SOld    // old(X)
	SStr    // string literal
)

type SExpr struct {
	Kind SKind
	Op   string
	Name string
	X    *SExpr
	Args []*SExpr
	Vars []string
	Int  string
	Pos  int
}

func (e *SExpr) String() string {
	if e == nil {
		return "<nil>"
	}
	switch e.Kind {
	case SInt:
		return e.Int
	case SStr:
		return fmt.Sprintf("%q", e.Name)
	case SBool, SIdent:
		return e.Name
	case SNil:
		return "nil"
	case SSel:
		return e.X.String() + "." + e.Name
	case SIndex:
		return e.X.String() + "[" + e.Args[0].String() + "]"
	case SSlice:
		lo, hi := "", ""
		if e.Args[0] != nil {
			lo = e.Args[0].String()
		}
		if e.Args[1] != nil {
			hi = e.Args[1].String()
		}
		return e.X.String() + "[" + lo + ":" + hi + "]"
	case SCall:
		var as []string
		for _, a := range e.Args {
			as = append(as, a.String())
		}
		if e.X != nil {
			return e.X.String() + "." + e.Name + "(" + strings.Join(as, ", ") + ")"
		}
		return e.Name + "(" + strings.Join(as, ", ") + ")"
	case SUnary:
		return e.Op + e.X.String()
	case SBinary:
		return "(" + e.X.String() + " " + e.Op + " " + e.Args[0].String() + ")"
	case SQuant:
		var as []string
		for _, a := range e.Args {
			as = append(as, a.String())
		}
		return e.Name + "(" + strings.Join(e.Vars, " ") + ", " + strings.Join(as, ", ") + ")"
	case SOld:
		return e.Name + "(" + e.X.String() + ")"
	}
	return "?"
}

type stok struct {
	kind string // int ident op str eof
	text string
	pos  int
}

func lexSpec(src string) ([]stok, error) {
	var toks []stok
	i := 0
	ops := []string{"<==>", "==>", "==", "!=", "<=", ">=", "&&", "||", "<", ">", "+", "-", "*", "/", "%", "!", "(", ")", "[", "]", ",", ".", ":", "?"}
	for i < len(src) {
		c := rune(src[i])
		if unicode.IsSpace(c) {
			i++
			continue
		}
		if unicode.IsDigit(c) {
			j := i
			for j < len(src) && (unicode.IsDigit(rune(src[j])) || src[j] == '_') {
				j++
			}
			toks = append(toks, stok{"int", strings.ReplaceAll(src[i:j], "_", ""), i})
			i = j
			continue
		}
		if unicode.IsLetter(c) || c == '_' || c == '$' {
			j := i
			for j < len(src) && (unicode.IsLetter(rune(src[j])) || unicode.IsDigit(rune(src[j])) || src[j] == '_' || src[j] == '$') {
				j++
			}
			toks = append(toks, stok{"ident", src[i:j], i})
			i = j
			continue
		}
		if c == '"' {
			j := i + 1
			for j < len(src) && src[j] != '"' {
				if src[j] == '\\' {
					j++
				}
				j++
			}
			if j >= len(src) {
				return nil, fmt.Errorf("unterminated string at %d", i)
			}
			toks = append(toks, stok{"str", src[i+1 : j], i})
			i = j + 1
			continue
		}
		matched := false
		for _, op := range ops {
			if strings.HasPrefix(src[i:], op) {
				toks = append(toks, stok{"op", op, i})
				i += len(op)
				matched = true
				break
			}
		}
		if !matched {
			return nil, fmt.Errorf("unexpected character %q at %d in %q", c, i, src)
		}
	}
	toks = append(toks, stok{"eof", "", len(src)})
	return toks, nil
}

type specParser struct {
	toks []stok
	p    int
	src  string
}

func ParseSpec(src string) (e *SExpr, err error) {
	toks, err := lexSpec(src)
	if err != nil {
		return nil, err
	}
	ps := &specParser{toks: toks, src: src}
	defer func() {
		if r := recover(); r != nil {
			if pe, ok := r.(parseErr); ok {
				err = fmt.Errorf("%s in %q", string(pe), src)
				return
			}
			panic(r)
		}
	}()
	e = ps.expr(0)
	if ps.peek().kind != "eof" {
		ps.fail("unexpected %q", ps.peek().text)
	}
	return e, nil
}

type parseErr string

func (ps *specParser) fail(f string, a ...interface{}) {
	panic(parseErr(fmt.Sprintf("spec parse error at %d: ", ps.peek().pos) + fmt.Sprintf(f, a...)))
}
func (ps *specParser) peek() stok { return ps.toks[ps.p] }
func (ps *specParser) next() stok { t := ps.toks[ps.p]; ps.p++; return t }
func (ps *specParser) isOp(s string) bool {
	t := ps.peek()
	return t.kind == "op" && t.text == s
}
func (ps *specParser) expect(s string) {
	if !ps.isOp(s) {
		ps.fail("expected %q, got %q", s, ps.peek().text)
	}
	ps.p++
}

// precedence: higher binds tighter
var binPrec = map[string]int{
	"<==>": 1, "==>": 2, "||": 3, "&&": 4,
	"==": 5, "!=": 5, "<": 5, "<=": 5, ">": 5, ">=": 5,
	"+": 6, "-": 6, "*": 7, "/": 7, "%": 7,
}

func (ps *specParser) expr(minPrec int) *SExpr {
	lhs := ps.unary()
	for {
		t := ps.peek()
		if t.kind != "op" {
			return lhs
		}
		prec, ok := binPrec[t.text]
		if !ok || prec < minPrec {
			return lhs
		}
		ps.next()
		var rhs *SExpr
		if t.text == "==>" || t.text == "<==>" {
			rhs = ps.expr(prec) // right assoc
		} else {
			rhs = ps.expr(prec + 1)
		}
		lhs = &SExpr{Kind: SBinary, Op: t.text, X: lhs, Args: []*SExpr{rhs}, Pos: t.pos}
	}
}

func (ps *specParser) unary() *SExpr {
	t := ps.peek()
	if t.kind == "op" && (t.text == "!" || t.text == "-" || t.text == "*") {
		// prefix "*" is a pointer dereference: *p, (*p)[k]
		ps.next()
		x := ps.unary()
		return &SExpr{Kind: SUnary, Op: t.text, X: x, Pos: t.pos}
	}
	return ps.postfix(ps.primary())
}

func (ps *specParser) primary() *SExpr {
	t := ps.next()
	switch t.kind {
	case "int":
		return &SExpr{Kind: SInt, Int: t.text, Pos: t.pos}
	case "str":
		return &SExpr{Kind: SStr, Name: t.text, Pos: t.pos}
	case "ident":
		switch t.text {
		case "true", "false":
			return &SExpr{Kind: SBool, Name: t.text, Pos: t.pos}
		case "nil":
			return &SExpr{Kind: SNil, Pos: t.pos}
		case "old", "prev", "head", "entry1", "entry2", "entry3", "entry4":
			ps.expect("(")
			x := ps.expr(0)
			ps.expect(")")
			return &SExpr{Kind: SOld, Name: t.text, X: x, Pos: t.pos}
		case "forallobj":
			// forallobj(c, T, body): for every object c of struct type T (c ranges over *T)
			ps.expect("(")
			v := ps.next()
			ps.expect(",")
			tn := ps.next()
			if v.kind != "ident" || tn.kind != "ident" {
				ps.fail("forallobj(var, Type, body)")
			}
			ps.expect(",")
			body := ps.expr(0)
			ps.expect(")")
			return &SExpr{Kind: SQuant, Name: "forallobj", Vars: []string{v.text, tn.text}, Args: []*SExpr{body}, Pos: t.pos}
		case "forallasg":
			// forallasg(B, body): for every assignment B
			ps.expect("(")
			v := ps.next()
			if v.kind != "ident" {
				ps.fail("expected assignment variable")
			}
			ps.expect(",")
			body := ps.expr(0)
			ps.expect(")")
			return &SExpr{Kind: SQuant, Name: "forallasg", Vars: []string{v.text}, Args: []*SExpr{body}, Pos: t.pos}
		case "forall", "exists":
			ps.expect("(")
			var vars []string
			for {
				v := ps.next()
				if v.kind != "ident" {
					ps.fail("expected bound variable")
				}
				vars = append(vars, v.text)
				if ps.isOp(",") {
					ps.next()
					break
				}
				// allow "forall(i j, ...)"
			}
			var args []*SExpr
			for {
				args = append(args, ps.expr(0))
				if ps.isOp(",") {
					ps.next()
					continue
				}
				break
			}
			ps.expect(")")
			if len(args) != 1 && len(args) != 3 {
				ps.fail("%s needs (vars, body) or (var, lo, hi, body)", t.text)
			}
			return &SExpr{Kind: SQuant, Name: t.text, Vars: vars, Args: args, Pos: t.pos}
		}
		if ps.isOp("(") {
			ps.next()
			args := ps.args()
			return &SExpr{Kind: SCall, Name: t.text, Args: args, Pos: t.pos}
		}
		return &SExpr{Kind: SIdent, Name: t.text, Pos: t.pos}
	case "op":
		if t.text == "(" {
			e := ps.expr(0)
			ps.expect(")")
			return e
		}
	}
	ps.p--
	ps.fail("unexpected %q", t.text)
	return nil
}

func (ps *specParser) args() []*SExpr {
	var args []*SExpr
	if ps.isOp(")") {
		ps.next()
		return args
	}
	for {
		args = append(args, ps.expr(0))
		if ps.isOp(",") {
			ps.next()
			continue
		}
		ps.expect(")")
		return args
	}
}

func (ps *specParser) postfix(x *SExpr) *SExpr {
	for {
		t := ps.peek()
		if t.kind != "op" {
			return x
		}
		switch t.text {
		case ".":
			ps.next()
			n := ps.next()
			if n.kind != "ident" && n.kind != "int" {
				ps.fail("expected field name")
			}
			if ps.isOp("(") {
				ps.next()
				args := ps.args()
				x = &SExpr{Kind: SCall, X: x, Name: n.text, Args: args, Pos: t.pos}
			} else {
				x = &SExpr{Kind: SSel, X: x, Name: n.text, Pos: t.pos}
			}
		case "[":
			ps.next()
			var lo, hi *SExpr
			if !ps.isOp(":") {
				lo = ps.expr(0)
			}
			if ps.isOp(":") {
				ps.next()
				if !ps.isOp("]") {
					hi = ps.expr(0)
				}
				ps.expect("]")
				x = &SExpr{Kind: SSlice, X: x, Args: []*SExpr{lo, hi}, Pos: t.pos}
			} else {
				ps.expect("]")
				x = &SExpr{Kind: SIndex, X: x, Args: []*SExpr{lo}, Pos: t.pos}
			}
		default:
			return x
		}
	}
}
