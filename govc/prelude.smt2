; ---------------------------------------------------------------- govc prelude
(declare-datatypes ((Slice 0)) (((mk-slice (s-arr Int) (s-off Int) (s-len Int) (s-cap Int)))))
(define-fun nil-slice () Slice (mk-slice 0 0 0 0))
(define-fun wf-slice ((s Slice)) Bool
  (and (>= (s-arr s) 0) (>= (s-off s) 0) (>= (s-len s) 0) (<= (s-len s) (s-cap s))
       (=> (= (s-arr s) 0) (and (= (s-cap s) 0) (= (s-off s) 0)))))
(declare-sort Str 0)
(declare-fun str-len (Str) Int)
(declare-fun str-id (Str) Int)
(declare-fun str-at (Str Int) Int)
(declare-fun str-cat (Str Str) Str)
(declare-fun str-sub (Str Int Int) Str)
(assert (forall ((s Str)) (! (>= (str-len s) 0) :pattern ((str-len s)))))
(declare-sort Flt 0)
(declare-const flt-zero Flt)
; slice-relative index: at(off, i) = off + i, kept uninterpreted so that quantifier
; triggers never contain arithmetic
(declare-fun at (Int Int) Int)
(assert (forall ((o Int) (i Int)) (! (= (at o i) (+ o i)) :pattern ((at o i)))))
; Go's truncated division / remainder
(define-fun tdiv ((a Int) (b Int)) Int (ite (>= a 0) (div a b) (- (div (- a) b))))
(define-fun tmod ((a Int) (b Int)) Int (- a (* b (tdiv a b))))
(define-fun absi ((a Int)) Int (ite (>= a 0) a (- a)))
(declare-fun pow2 (Int) Int)
(assert (= (pow2 0) 1))
(assert (forall ((n Int)) (! (=> (> n 0) (= (pow2 n) (* 2 (pow2 (- n 1))))) :pattern ((pow2 n)))))
(assert (forall ((n Int)) (! (=> (>= n 0) (>= (pow2 n) 1)) :pattern ((pow2 n)))))

; ---------------------------------------------------------------- truth of literals
; DIMACS integer literal x != 0 under assignment A (variable v is A[v-1])
;@sig tvi : asg int -> bool
(define-fun tvi ((A (Array Int Bool)) (x Int)) Bool (ite (> x 0) (select A (- x 1)) (not (select A (- (- x) 1)))))
; internal literal l >= 0: variable l div 2, negative iff odd
;@sig tv : asg int -> bool
(define-fun tv ((A (Array Int Bool)) (l Int)) Bool (= (select A (div l 2)) (= (mod l 2) 0)))
; clause of DIMACS integers satisfied
;@sig csat : row int asg -> bool
(define-fun csat ((R (Array Int Int)) (o Int) (n Int) (A (Array Int Bool))) Bool
  (exists ((k Int)) (and (<= 0 k) (< k n) (tvi A (select R (at o k))))))

; ---------------------------------------------------------------- pbSet semantics (cutting planes)
; weights row W (index = variable), assignment A: sum of |W[v]| over v < n whose literal is true
;@sig vterm : int bool -> int
(define-fun vterm ((w Int) (a Bool)) Int (ite (= w 0) 0 (ite (= a (> w 0)) (absi w) 0)))
;@sig vsum : row asg int -> int
(declare-fun vsum ((Array Int Int) Int (Array Int Bool) Int) Int)
(assert (forall ((R (Array Int Int)) (o Int) (A (Array Int Bool)) (n Int))
  (! (= (vsum R o A n) (ite (<= n 0) 0 (+ (vsum R o A (- n 1)) (vterm (select R (at o (- n 1))) (select A (- n 1))))))
     :pattern ((vsum R o A n)))))
;@lemma vsum_store_outside
(assert (forall ((R (Array Int Int)) (j Int) (v Int) (o Int) (A (Array Int Bool)) (n Int))
  (! (=> (or (< j o) (>= j (+ o n))) (= (vsum (store R j v) o A n) (vsum R o A n)))
     :pattern ((vsum (store R j v) o A n)))))
;@lemma vsum_nonneg
(assert (forall ((R (Array Int Int)) (o Int) (A (Array Int Bool)) (n Int))
  (! (>= (vsum R o A n) 0) :pattern ((vsum R o A n)))))
; weight removed by roundToOne's weakening step: non-falsified literals whose weight is not a multiple of wi
;@sig nonfals : int int -> bool
(define-fun nonfals ((m Int) (w Int)) Bool (or (= m 0) (= (> m 0) (> w 0))))
;@sig rsum : row row int int -> int
(declare-fun rsum ((Array Int Int) Int (Array Int Int) Int Int Int) Int)
(assert (forall ((W (Array Int Int)) (o Int) (M (Array Int Int)) (mo Int) (wi Int) (n Int))
  (! (= (rsum W o M mo wi n)
        (ite (<= n 0) 0 (+ (rsum W o M mo wi (- n 1))
             (ite (and (not (= (select W (at o (- n 1))) 0)) (not (= (tmod (select W (at o (- n 1))) wi) 0)) (nonfals (select M (at mo (- n 1))) (select W (at o (- n 1)))))
                  (absi (select W (at o (- n 1)))) 0))))
     :pattern ((rsum W o M mo wi n)))))
;@lemma rsum_store_outside
(assert (forall ((W (Array Int Int)) (j Int) (v Int) (o Int) (M (Array Int Int)) (mo Int) (wi Int) (n Int))
  (! (=> (or (< j o) (>= j (+ o n))) (= (rsum (store W j v) o M mo wi n) (rsum W o M mo wi n)))
     :pattern ((rsum (store W j v) o M mo wi n)))))
