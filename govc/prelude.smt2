; ---------------------------------------------------------------- govc prelude
(declare-datatypes ((Slice 0)) (((mk-slice (s-arr Int) (s-off Int) (s-len Int) (s-cap Int)))))
(define-fun nil-slice () Slice (mk-slice 0 0 0 0))
(define-fun wf-slice ((s Slice)) Bool
  (and (>= (s-arr s) 0) (>= (s-off s) 0) (>= (s-len s) 0) (<= (s-len s) (s-cap s))
       (=> (= (s-arr s) 0) (and (= (s-cap s) 0) (= (s-off s) 0)))))
(define-sort Str () Int) ; strings are opaque identities; 0 is the empty string
(declare-fun str-len (Str) Int)
(declare-fun str-id (Str) Int)
(declare-fun str-at (Str Int) Int)
(declare-fun str-cat (Str Str) Str)
(declare-fun str-sub (Str Int Int) Str)
(assert (forall ((s Str)) (! (>= (str-len s) 0) :pattern ((str-len s)))))
(define-sort Flt () Real) ; floats: every operation is uninterpreted (fresh result)
(define-fun flt-zero () Flt 0.0)
(assert (= (str-len 0) 0))
; quantifiers over slice elements are stated over absolute row positions, so that
; their triggers are plain (select row j) terms without arithmetic
; Go's truncated division / remainder
(define-fun tdiv ((a Int) (b Int)) Int (ite (>= a 0) (div a b) (- (div (- a) b))))
(define-fun tmod ((a Int) (b Int)) Int (- a (* b (tdiv a b))))
(define-fun absi ((a Int)) Int (ite (>= a 0) a (- a)))
;@sig pow2 : int -> int
(declare-fun pow2 (Int) Int)
(assert (= (pow2 0) 1))
(assert (forall ((n Int)) (! (=> (> n 0) (= (pow2 n) (* 2 (pow2 (- n 1))))) :pattern ((pow2 n)))))
(assert (forall ((n Int)) (! (=> (>= n 0) (>= (pow2 n) 1)) :pattern ((pow2 n)))))

; ---------------------------------------------------------------- truth of literals
; DIMACS integer literal x != 0 under assignment A (variable v is A[v-1])
;@sig tvi : asg int -> bool
(define-fun tvi ((A (Array Int Bool)) (x Int)) Bool (ite (> x 0) (select A (- x 1)) (not (select A (- (- x) 1)))))
; internal literal l >= 0: variable l div 2, negative iff odd
;@sig tv : asg int -> bool
(define-fun tv ((A (Array Int Bool)) (l Int)) Bool (= (select A (div l 2)) (= (mod l 2) 0)))
; clause of DIMACS integers satisfied
;@sig csat : row int asg -> bool
(declare-fun csat ((Array Int Int) Int Int (Array Int Bool)) Bool)
; kept uninterpreted (defined by an axiom) so that equal arguments give equal truth values by congruence
(assert (forall ((R (Array Int Int)) (o Int) (n Int) (A (Array Int Bool)))
  (! (= (csat R o n A) (exists ((j Int)) (! (and (<= o j) (< j (+ o n)) (tvi A (select R j))) :pattern ((select R j)))))
     :pattern ((csat R o n A)))))

; ---------------------------------------------------------------- pbSet semantics (cutting planes)
; weights row W (index = variable), assignment A: sum of |W[v]| over v < n whose literal is true
;@sig vterm : int bool -> int
(define-fun vterm ((w Int) (a Bool)) Int (ite (= w 0) 0 (ite (= a (> w 0)) (absi w) 0)))
;@sig vsum : row asg int -> int
(declare-fun vsum ((Array Int Int) Int (Array Int Bool) Int) Int)
(assert (forall ((R (Array Int Int)) (o Int) (A (Array Int Bool)) (n Int))
  (! (= (vsum R o A n) (ite (<= n 0) 0 (+ (vsum R o A (- n 1)) (vterm (select R (+ o (- n 1))) (select A (- n 1))))))
     :pattern ((vsum R o A n)))))
;@lemma vsum_store_outside
(assert (forall ((R (Array Int Int)) (j Int) (v Int) (o Int) (A (Array Int Bool)) (n Int))
  (! (=> (or (< j o) (>= j (+ o n))) (= (vsum (store R j v) o A n) (vsum R o A n)))
     :pattern ((vsum (store R j v) o A n)))))
;@lemma vsum_nonneg
(assert (forall ((R (Array Int Int)) (o Int) (A (Array Int Bool)) (n Int))
  (! (>= (vsum R o A n) 0) :pattern ((vsum R o A n)))))
; weight removed by roundToOne's weakening step: non-falsified literals whose weight is not a multiple of wi
;@sig nonfals : int int -> bool
(define-fun nonfals ((m Int) (w Int)) Bool (or (= m 0) (= (> m 0) (> w 0))))
;@sig rsum : row row int int -> int
(declare-fun rsum ((Array Int Int) Int (Array Int Int) Int Int Int) Int)
(assert (forall ((W (Array Int Int)) (o Int) (M (Array Int Int)) (mo Int) (wi Int) (n Int))
  (! (= (rsum W o M mo wi n)
        (ite (<= n 0) 0 (+ (rsum W o M mo wi (- n 1))
             (ite (and (not (= (select W (+ o (- n 1))) 0)) (not (= (tmod (select W (+ o (- n 1))) wi) 0)) (nonfals (select M (+ mo (- n 1))) (select W (+ o (- n 1)))))
                  (absi (select W (+ o (- n 1)))) 0))))
     :pattern ((rsum W o M mo wi n)))))
;@lemma rsum_store_outside
(assert (forall ((W (Array Int Int)) (j Int) (v Int) (o Int) (M (Array Int Int)) (mo Int) (wi Int) (n Int))
  (! (=> (or (< j o) (>= j (+ o n))) (= (rsum (store W j v) o M mo wi n) (rsum W o M mo wi n)))
     :pattern ((rsum (store W j v) o M mo wi n)))))

; ---------------------------------------------------------------- weighted sums over DIMACS literals
; isum(L, W, A, n) = sum over k < n of wt(W,k) * [tvi(A, L[k])]; wt is 1 when W is nil (wn)
;@sig iterm : int int asg -> int
(define-fun iterm ((l Int) (w Int) (A (Array Int Bool))) Int (ite (tvi A l) w 0))
;@sig isum : row rowz asg int -> int
(declare-fun isum ((Array Int Int) Int (Array Int Int) Int Bool (Array Int Bool) Int) Int)
(assert (forall ((L (Array Int Int)) (lo Int) (W (Array Int Int)) (wo Int) (wn Bool) (A (Array Int Bool)) (n Int))
  (! (= (isum L lo W wo wn A n)
        (ite (<= n 0) 0 (+ (isum L lo W wo wn A (- n 1))
             (iterm (select L (+ lo (- n 1))) (ite wn 1 (select W (+ wo (- n 1)))) A))))
     :pattern ((isum L lo W wo wn A n)))))
;@lemma isum_ext
(assert (forall ((L1 (Array Int Int)) (lo1 Int) (W1 (Array Int Int)) (wo1 Int) (L2 (Array Int Int)) (lo2 Int) (W2 (Array Int Int)) (wo2 Int) (wn Bool) (A (Array Int Bool)) (n Int))
  (! (=> (and (forall ((j Int)) (! (=> (and (<= lo1 j) (< j (+ lo1 n))) (= (select L1 j) (select L2 (+ lo2 (- j lo1))))) :pattern ((select L1 j))))
              (or wn (forall ((j Int)) (! (=> (and (<= wo1 j) (< j (+ wo1 n))) (= (select W1 j) (select W2 (+ wo2 (- j wo1))))) :pattern ((select W1 j))))))
         (= (isum L1 lo1 W1 wo1 wn A n) (isum L2 lo2 W2 wo2 wn A n)))
     :pattern ((isum L1 lo1 W1 wo1 wn A n) (isum L2 lo2 W2 wo2 wn A n)))))
;@lemma isum_update_L
(assert (forall ((L (Array Int Int)) (j Int) (v Int) (lo Int) (W (Array Int Int)) (wo Int) (wn Bool) (A (Array Int Bool)) (n Int))
  (! (= (isum (store L j v) lo W wo wn A n)
        (ite (and (<= lo j) (< j (+ lo n)))
             (+ (isum L lo W wo wn A n)
                (- (iterm v (ite wn 1 (select W (+ wo (- j lo)))) A) (iterm (select L j) (ite wn 1 (select W (+ wo (- j lo)))) A)))
             (isum L lo W wo wn A n)))
     :pattern ((isum (store L j v) lo W wo wn A n)))))
;@lemma isum_update_W
(assert (forall ((L (Array Int Int)) (j Int) (v Int) (lo Int) (W (Array Int Int)) (wo Int) (wn Bool) (A (Array Int Bool)) (n Int))
  (! (= (isum L lo (store W j v) wo wn A n)
        (ite (and (not wn) (<= wo j) (< j (+ wo n)))
             (+ (isum L lo W wo wn A n)
                (- (iterm (select L (+ lo (- j wo))) v A) (iterm (select L (+ lo (- j wo))) (select W j) A)))
             (isum L lo W wo wn A n)))
     :pattern ((isum L lo (store W j v) wo wn A n)))))
; deleting the zero-weight entry i by shifting the tail left (GtEq): explicit lemma instance
;@sig lem_isum_delete : row row row row asg int int -> bool
(declare-fun lem_isum_delete ((Array Int Int) Int (Array Int Int) Int (Array Int Int) Int (Array Int Int) Int (Array Int Bool) Int Int) Bool)
;@lemma isum_delete
(assert (forall ((L2 (Array Int Int)) (lo2 Int) (W2 (Array Int Int)) (wo2 Int) (L (Array Int Int)) (lo Int) (W (Array Int Int)) (wo Int) (A (Array Int Bool)) (n Int) (i Int))
  (! (and (lem_isum_delete L2 lo2 W2 wo2 L lo W wo A n i)
      (=> (and (<= 0 i) (< i n) (= (select W (+ wo i)) 0)
               (forall ((j Int)) (! (=> (and (<= lo2 j) (< j (+ lo2 i))) (= (select L2 j) (select L (+ lo (- j lo2))))) :pattern ((select L2 j))))
               (forall ((j Int)) (! (=> (and (<= wo2 j) (< j (+ wo2 i))) (= (select W2 j) (select W (+ wo (- j wo2))))) :pattern ((select W2 j))))
               (forall ((j Int)) (! (=> (and (<= (+ lo2 i) j) (< j (+ lo2 (- n 1)))) (= (select L2 j) (select L (+ lo (- j lo2) 1)))) :pattern ((select L2 j))))
               (forall ((j Int)) (! (=> (and (<= (+ wo2 i) j) (< j (+ wo2 (- n 1)))) (= (select W2 j) (select W (+ wo (- j wo2) 1)))) :pattern ((select W2 j)))))
          (= (isum L2 lo2 W2 wo2 false A (- n 1)) (isum L lo W wo false A n))))
     :pattern ((lem_isum_delete L2 lo2 W2 wo2 L lo W wo A n i)))))
; sum of the weights (1 each when W is nil)
;@sig wsum : rowz int -> int
(declare-fun wsum ((Array Int Int) Int Bool Int) Int)
(assert (forall ((W (Array Int Int)) (wo Int) (wn Bool) (n Int))
  (! (= (wsum W wo wn n) (ite (<= n 0) 0 (+ (wsum W wo wn (- n 1)) (ite wn 1 (select W (+ wo (- n 1)))))))
     :pattern ((wsum W wo wn n)))))
;@lemma wsum_store_outside
(assert (forall ((W (Array Int Int)) (j Int) (v Int) (wo Int) (wn Bool) (n Int))
  (! (=> (or wn (< j wo) (>= j (+ wo n))) (= (wsum (store W j v) wo wn n) (wsum W wo wn n)))
     :pattern ((wsum (store W j v) wo wn n)))))
; negating every literal: sum w*[-l] = wsum - sum w*[l]  (explicit lemma instance)
;@sig lem_isum_neg : row row rowz asg int -> bool
(declare-fun lem_isum_neg ((Array Int Int) Int (Array Int Int) Int (Array Int Int) Int Bool (Array Int Bool) Int) Bool)
;@lemma isum_neg
(assert (forall ((L2 (Array Int Int)) (lo2 Int) (L (Array Int Int)) (lo Int) (W (Array Int Int)) (wo Int) (wn Bool) (A (Array Int Bool)) (n Int))
  (! (and (lem_isum_neg L2 lo2 L lo W wo wn A n)
      (=> (forall ((j Int)) (! (=> (and (<= lo2 j) (< j (+ lo2 n))) (and (= (select L2 j) (- (select L (+ lo (- j lo2))))) (not (= (select L2 j) 0)))) :pattern ((select L2 j))))
          (= (isum L2 lo2 W wo wn A n) (- (wsum W wo wn n) (isum L lo W wo wn A n)))))
     :pattern ((lem_isum_neg L2 lo2 L lo W wo wn A n)))))
;@lemma wsum_nil
(assert (forall ((W (Array Int Int)) (wo Int) (wn Bool) (n Int))
  (! (=> wn (= (wsum W wo wn n) (ite (<= n 0) 0 n))) :pattern ((wsum W wo wn n)))))

; ---------------------------------------------------------------- weighted sums over internal literals (Lit)
; psum(L, W, A, n) = sum over k < n of wt(W,k) * [tv(A, L[k])]; wt is 1 when W is nil (wn)
;@sig pterm : int int asg -> int
(define-fun pterm ((l Int) (w Int) (A (Array Int Bool))) Int (ite (tv A l) w 0))
;@sig psum : row rowz asg int -> int
(declare-fun psum ((Array Int Int) Int (Array Int Int) Int Bool (Array Int Bool) Int) Int)
(assert (forall ((L (Array Int Int)) (lo Int) (W (Array Int Int)) (wo Int) (wn Bool) (A (Array Int Bool)) (n Int))
  (! (= (psum L lo W wo wn A n)
        (ite (<= n 0) 0 (+ (psum L lo W wo wn A (- n 1))
             (pterm (select L (+ lo (- n 1))) (ite wn 1 (select W (+ wo (- n 1)))) A))))
     :pattern ((psum L lo W wo wn A n)))))
;@lemma psum_ext
(assert (forall ((L1 (Array Int Int)) (lo1 Int) (W1 (Array Int Int)) (wo1 Int) (L2 (Array Int Int)) (lo2 Int) (W2 (Array Int Int)) (wo2 Int) (wn Bool) (A (Array Int Bool)) (n Int))
  (! (=> (and (forall ((j Int)) (! (=> (and (<= lo1 j) (< j (+ lo1 n))) (= (select L1 j) (select L2 (+ lo2 (- j lo1))))) :pattern ((select L1 j))))
              (or wn (forall ((j Int)) (! (=> (and (<= wo1 j) (< j (+ wo1 n))) (= (select W1 j) (select W2 (+ wo2 (- j wo1))))) :pattern ((select W1 j))))))
         (= (psum L1 lo1 W1 wo1 wn A n) (psum L2 lo2 W2 wo2 wn A n)))
     :pattern ((psum L1 lo1 W1 wo1 wn A n) (psum L2 lo2 W2 wo2 wn A n)))))
;@lemma psum_update_L
(assert (forall ((L (Array Int Int)) (j Int) (v Int) (lo Int) (W (Array Int Int)) (wo Int) (wn Bool) (A (Array Int Bool)) (n Int))
  (! (= (psum (store L j v) lo W wo wn A n)
        (ite (and (<= lo j) (< j (+ lo n)))
             (+ (psum L lo W wo wn A n)
                (- (pterm v (ite wn 1 (select W (+ wo (- j lo)))) A) (pterm (select L j) (ite wn 1 (select W (+ wo (- j lo)))) A)))
             (psum L lo W wo wn A n)))
     :pattern ((psum (store L j v) lo W wo wn A n)))))
;@lemma psum_update_W
(assert (forall ((L (Array Int Int)) (j Int) (v Int) (lo Int) (W (Array Int Int)) (wo Int) (wn Bool) (A (Array Int Bool)) (n Int))
  (! (= (psum L lo (store W j v) wo wn A n)
        (ite (and (not wn) (<= wo j) (< j (+ wo n)))
             (+ (psum L lo W wo wn A n)
                (- (pterm (select L (+ lo (- j wo))) v A) (pterm (select L (+ lo (- j wo))) (select W j) A)))
             (psum L lo W wo wn A n)))
     :pattern ((psum L lo (store W j v) wo wn A n)))))
; deleting the zero-weight entry i by shifting the tail left (GtEq): explicit lemma instance
;@sig lem_psum_delete : row row row row asg int int -> bool
(declare-fun lem_psum_delete ((Array Int Int) Int (Array Int Int) Int (Array Int Int) Int (Array Int Int) Int (Array Int Bool) Int Int) Bool)
;@lemma psum_delete
(assert (forall ((L2 (Array Int Int)) (lo2 Int) (W2 (Array Int Int)) (wo2 Int) (L (Array Int Int)) (lo Int) (W (Array Int Int)) (wo Int) (A (Array Int Bool)) (n Int) (i Int))
  (! (and (lem_psum_delete L2 lo2 W2 wo2 L lo W wo A n i)
      (=> (and (<= 0 i) (< i n) (= (select W (+ wo i)) 0)
               (forall ((j Int)) (! (=> (and (<= lo2 j) (< j (+ lo2 i))) (= (select L2 j) (select L (+ lo (- j lo2))))) :pattern ((select L2 j))))
               (forall ((j Int)) (! (=> (and (<= wo2 j) (< j (+ wo2 i))) (= (select W2 j) (select W (+ wo (- j wo2))))) :pattern ((select W2 j))))
               (forall ((j Int)) (! (=> (and (<= (+ lo2 i) j) (< j (+ lo2 (- n 1)))) (= (select L2 j) (select L (+ lo (- j lo2) 1)))) :pattern ((select L2 j))))
               (forall ((j Int)) (! (=> (and (<= (+ wo2 i) j) (< j (+ wo2 (- n 1)))) (= (select W2 j) (select W (+ wo (- j wo2) 1)))) :pattern ((select W2 j)))))
          (= (psum L2 lo2 W2 wo2 false A (- n 1)) (psum L lo W wo false A n))))
     :pattern ((lem_psum_delete L2 lo2 W2 wo2 L lo W wo A n i)))))

; deleting entry i by moving the last entry into its place (Clause.removeLit): explicit lemma instance
;@sig lem_psum_swapdel : row rowz row rowz asg int int -> bool
(declare-fun lem_psum_swapdel ((Array Int Int) Int (Array Int Int) Int Bool (Array Int Int) Int (Array Int Int) Int Bool (Array Int Bool) Int Int) Bool)
;@lemma psum_swapdel
(assert (forall ((L2 (Array Int Int)) (lo2 Int) (W2 (Array Int Int)) (wo2 Int) (wn2 Bool) (L (Array Int Int)) (lo Int) (W (Array Int Int)) (wo Int) (wn Bool) (A (Array Int Bool)) (n Int) (i Int))
  (! (and (lem_psum_swapdel L2 lo2 W2 wo2 wn2 L lo W wo wn A n i)
      (=> (and (<= 0 i) (< i n) (= wn2 wn)
               (forall ((j Int)) (! (=> (and (<= lo2 j) (< j (+ lo2 (- n 1))) (not (= j (+ lo2 i)))) (= (select L2 j) (select L (+ lo (- j lo2))))) :pattern ((select L2 j))))
               (=> (< i (- n 1)) (= (select L2 (+ lo2 i)) (select L (+ lo (- n 1)))))
               (or wn (and (forall ((j Int)) (! (=> (and (<= wo2 j) (< j (+ wo2 (- n 1))) (not (= j (+ wo2 i)))) (= (select W2 j) (select W (+ wo (- j wo2))))) :pattern ((select W2 j))))
                           (=> (< i (- n 1)) (= (select W2 (+ wo2 i)) (select W (+ wo (- n 1))))))))
          (= (psum L2 lo2 W2 wo2 wn A (- n 1))
             (- (psum L lo W wo wn A n) (pterm (select L (+ lo i)) (ite wn 1 (select W (+ wo i))) A)))))
     :pattern ((lem_psum_swapdel L2 lo2 W2 wo2 wn2 L lo W wo wn A n i)))))

; DIMACS integer -> internal literal (specification of IntToLit)
;@sig ilit : int -> int
(define-fun ilit ((x Int)) Int (ite (< x 0) (+ (* 2 (- (- x) 1)) 1) (* 2 (- x 1))))
; converting every literal with IntToLit keeps the weighted sum (explicit lemma instance)
;@sig lem_isum_psum : row row rowz asg int -> bool
(declare-fun lem_isum_psum ((Array Int Int) Int (Array Int Int) Int (Array Int Int) Int Bool (Array Int Bool) Int) Bool)
;@lemma isum_psum
(assert (forall ((L2 (Array Int Int)) (lo2 Int) (L (Array Int Int)) (lo Int) (W (Array Int Int)) (wo Int) (wn Bool) (A (Array Int Bool)) (n Int))
  (! (and (lem_isum_psum L2 lo2 L lo W wo wn A n)
      (=> (forall ((j Int)) (! (=> (and (<= lo2 j) (< j (+ lo2 n))) (and (= (select L2 j) (ilit (select L (+ lo (- j lo2))))) (not (= (select L (+ lo (- j lo2))) 0)))) :pattern ((select L2 j))))
          (= (psum L2 lo2 W wo wn A n) (isum L lo W wo wn A n))))
     :pattern ((lem_isum_psum L2 lo2 L lo W wo wn A n)))))
; explicit weights that are all 1 behave like the nil ("all weights are 1") convention
;@sig lem_psum_ones : row row asg int -> bool
(declare-fun lem_psum_ones ((Array Int Int) Int (Array Int Int) Int (Array Int Bool) Int) Bool)
;@lemma psum_ones
(assert (forall ((L (Array Int Int)) (lo Int) (W (Array Int Int)) (wo Int) (A (Array Int Bool)) (n Int))
  (! (and (lem_psum_ones L lo W wo A n)
      (=> (forall ((j Int)) (! (=> (and (<= wo j) (< j (+ wo n))) (= (select W j) 1)) :pattern ((select W j))))
          (= (psum L lo W wo false A n) (psum L lo W wo true A n))))
     :pattern ((lem_psum_ones L lo W wo A n)))))
;@lemma psum_nilrow
(assert (forall ((L (Array Int Int)) (lo Int) (W1 (Array Int Int)) (wo1 Int) (W2 (Array Int Int)) (wo2 Int) (A (Array Int Bool)) (n Int))
  (! (= (psum L lo W1 wo1 true A n) (psum L lo W2 wo2 true A n))
     :pattern ((psum L lo W1 wo1 true A n) (psum L lo W2 wo2 true A n)))))
; non-negative weights give a non-negative sum (explicit lemma instance)
;@sig lem_isum_nonneg : row rowz asg int -> bool
(declare-fun lem_isum_nonneg ((Array Int Int) Int (Array Int Int) Int Bool (Array Int Bool) Int) Bool)
;@lemma isum_nonneg
(assert (forall ((L (Array Int Int)) (lo Int) (W (Array Int Int)) (wo Int) (wn Bool) (A (Array Int Bool)) (n Int))
  (! (and (lem_isum_nonneg L lo W wo wn A n)
      (=> (or wn (forall ((j Int)) (! (=> (and (<= wo j) (< j (+ wo n))) (>= (select W j) 0)) :pattern ((select W j)))))
          (>= (isum L lo W wo wn A n) 0)))
     :pattern ((lem_isum_nonneg L lo W wo wn A n)))))
;@sig lem_isum_le : row rowz asg int -> bool
(declare-fun lem_isum_le ((Array Int Int) Int (Array Int Int) Int Bool (Array Int Bool) Int) Bool)
;@lemma isum_le
(assert (forall ((L (Array Int Int)) (lo Int) (W (Array Int Int)) (wo Int) (wn Bool) (A (Array Int Bool)) (n Int))
  (! (and (lem_isum_le L lo W wo wn A n)
      (=> (or wn (forall ((j Int)) (! (=> (and (<= wo j) (< j (+ wo n))) (>= (select W j) 0)) :pattern ((select W j)))))
          (<= (isum L lo W wo wn A n) (wsum W wo wn n))))
     :pattern ((lem_isum_le L lo W wo wn A n)))))
; with positive weights the sum reaches the total weight exactly when every literal is true
;@sig lem_isum_all : row rowz asg int -> bool
(declare-fun lem_isum_all ((Array Int Int) Int (Array Int Int) Int Bool (Array Int Bool) Int) Bool)
;@lemma isum_all
(assert (forall ((L (Array Int Int)) (lo Int) (W (Array Int Int)) (wo Int) (wn Bool) (A (Array Int Bool)) (n Int))
  (! (and (lem_isum_all L lo W wo wn A n)
      (=> (or wn (forall ((j Int)) (! (=> (and (<= wo j) (< j (+ wo n))) (> (select W j) 0)) :pattern ((select W j)))))
          (= (>= (isum L lo W wo wn A n) (wsum W wo wn n))
             (forall ((j Int)) (! (=> (and (<= lo j) (< j (+ lo n))) (tvi A (select L j))) :pattern ((select L j)))))))
     :pattern ((lem_isum_all L lo W wo wn A n)))))

; ---------------------------------------------------------------- solver-level vocabulary
; assignment described by a model row: variable v is true iff its decision level is positive
;@sig asgof : row -> asg
(declare-fun asgof ((Array Int Int) Int) (Array Int Bool))
(assert (forall ((R (Array Int Int)) (o Int) (v Int))
  (! (= (select (asgof R o) v) (> (select R (+ o v)) 0)) :pattern ((select (asgof R o) v)))))
; negation of an internal literal (specification of Lit.Negation)
;@sig nlit : int -> int
(define-fun nlit ((l Int)) Int (ite (= (mod l 2) 0) (+ l 1) (- l 1)))
;@sig lem_psum_negl : row row rowz asg int -> bool
(declare-fun lem_psum_negl ((Array Int Int) Int (Array Int Int) Int (Array Int Int) Int Bool (Array Int Bool) Int) Bool)
;@lemma psum_negl
(assert (forall ((L2 (Array Int Int)) (lo2 Int) (L (Array Int Int)) (lo Int) (W (Array Int Int)) (wo Int) (wn Bool) (A (Array Int Bool)) (n Int))
  (! (and (lem_psum_negl L2 lo2 L lo W wo wn A n)
      (=> (forall ((j Int)) (! (=> (and (<= lo2 j) (< j (+ lo2 n))) (and (= (select L2 j) (nlit (select L (+ lo (- j lo2))))) (>= (select L2 j) 0) (>= (select L (+ lo (- j lo2))) 0))) :pattern ((select L2 j))))
          (= (psum L2 lo2 W wo wn A n) (- (wsum W wo wn n) (psum L lo W wo wn A n)))))
     :pattern ((lem_psum_negl L2 lo2 L lo W wo wn A n)))))
;@lemma wsum_ext
(assert (forall ((W1 (Array Int Int)) (wo1 Int) (W2 (Array Int Int)) (wo2 Int) (n Int))
  (! (=> (forall ((j Int)) (! (=> (and (<= wo1 j) (< j (+ wo1 n))) (= (select W1 j) (select W2 (+ wo2 (- j wo1))))) :pattern ((select W1 j))))
         (= (wsum W1 wo1 false n) (wsum W2 wo2 false n)))
     :pattern ((wsum W1 wo1 false n) (wsum W2 wo2 false n)))))
;@sig lem_wsum_ones : row int -> bool
(declare-fun lem_wsum_ones ((Array Int Int) Int Int) Bool)
;@lemma wsum_ones
(assert (forall ((W (Array Int Int)) (wo Int) (n Int))
  (! (and (lem_wsum_ones W wo n)
      (=> (forall ((j Int)) (! (=> (and (<= wo j) (< j (+ wo n))) (= (select W j) 1)) :pattern ((select W j))))
          (= (wsum W wo false n) (ite (<= n 0) 0 n))))
     :pattern ((lem_wsum_ones W wo n)))))
;@sig lem_wsum_elem : row int -> bool
(declare-fun lem_wsum_elem ((Array Int Int) Int Int) Bool)
; every entry of a non-negative row is at most the sum of the row
;@lemma wsum_elem
(assert (forall ((W (Array Int Int)) (wo Int) (n Int))
  (! (and (lem_wsum_elem W wo n)
      (=> (forall ((j Int)) (! (=> (and (<= wo j) (< j (+ wo n))) (>= (select W j) 0)) :pattern ((select W j))))
          (and (>= (wsum W wo false n) 0)
               (forall ((j Int)) (! (=> (and (<= wo j) (< j (+ wo n))) (<= (select W j) (wsum W wo false n))) :pattern ((select W j)))))))
     :pattern ((lem_wsum_elem W wo n)))))
; marker used as the trigger of quantifiers over assignments: mentioning asgmark(B) for a
; particular assignment B instantiates every "for all assignments" fact at B
;@sig asgmark : asg -> bool
(declare-fun asgmark ((Array Int Bool)) Bool)
(assert (forall ((B (Array Int Bool))) (! (asgmark B) :pattern ((asgmark B)))))
; assignment described by a row of booleans (a returned model)
;@sig asgofb : row -> asg
(declare-fun asgofb ((Array Int Bool) Int) (Array Int Bool))
(assert (forall ((R (Array Int Bool)) (o Int) (v Int))
  (! (= (select (asgofb R o) v) (select R (+ o v))) :pattern ((select (asgofb R o) v)))))
;@sig lem_psum_le : row rowz asg int -> bool
(declare-fun lem_psum_le ((Array Int Int) Int (Array Int Int) Int Bool (Array Int Bool) Int) Bool)
;@lemma psum_le
(assert (forall ((L (Array Int Int)) (lo Int) (W (Array Int Int)) (wo Int) (wn Bool) (A (Array Int Bool)) (n Int))
  (! (and (lem_psum_le L lo W wo wn A n)
      (=> (or wn (forall ((j Int)) (! (=> (and (<= wo j) (< j (+ wo n))) (>= (select W j) 0)) :pattern ((select W j)))))
          (and (<= 0 (psum L lo W wo wn A n)) (<= (psum L lo W wo wn A n) (wsum W wo wn n)))))
     :pattern ((lem_psum_le L lo W wo wn A n)))))
; number of zero entries among the first n entries of a row (unbound variables of a model)
;@sig czero : row int -> int
(declare-fun czero ((Array Int Int) Int Int) Int)
(assert (forall ((R (Array Int Int)) (o Int) (n Int))
  (! (= (czero R o n) (ite (<= n 0) 0 (+ (czero R o (- n 1)) (ite (= (select R (+ o (- n 1))) 0) 1 0))))
     :pattern ((czero R o n)))))
;@lemma czero_nonneg
(assert (forall ((R (Array Int Int)) (o Int) (n Int))
  (! (and (>= (czero R o n) 0) (<= (czero R o n) (ite (<= n 0) 0 n))) :pattern ((czero R o n)))))
; bit j of i
;@sig bit : int int -> bool
(define-fun bit ((i Int) (j Int)) Bool (= (mod (div i (pow2 j)) 2) 1))
; ---------------------------------------------------------------- parse-time truth under Problem.Model (values 0 / 1 / -1)
; literal l is true / false under model value m of its variable
;@sig mtrue : int int -> bool
(define-fun mtrue ((m Int) (l Int)) Bool (and (not (= m 0)) (= (= m 1) (= (tmod l 2) 0))))
;@sig mfalse : int int -> bool
(define-fun mfalse ((m Int) (l Int)) Bool (and (not (= m 0)) (not (= (= m 1) (= (tmod l 2) 0)))))
; tcount(L, M, n): number of positions k < n whose literal L[k] is true under the model row M
;@sig tcount : row row int -> int
(declare-fun tcount ((Array Int Int) Int (Array Int Int) Int Int) Int)
(assert (forall ((L (Array Int Int)) (lo Int) (M (Array Int Int)) (mo Int) (n Int))
  (! (= (tcount L lo M mo n)
        (ite (<= n 0) 0 (+ (tcount L lo M mo (- n 1))
             (ite (mtrue (select M (+ mo (tdiv (select L (+ lo (- n 1))) 2))) (select L (+ lo (- n 1)))) 1 0))))
     :pattern ((tcount L lo M mo n)))))
;@lemma tcount_store_outside
(assert (forall ((L (Array Int Int)) (j Int) (v Int) (lo Int) (M (Array Int Int)) (mo Int) (n Int))
  (! (=> (or (< j lo) (>= j (+ lo n))) (= (tcount (store L j v) lo M mo n) (tcount L lo M mo n)))
     :pattern ((tcount (store L j v) lo M mo n)))))
;@lemma tcount_bounds
(assert (forall ((L (Array Int Int)) (lo Int) (M (Array Int Int)) (mo Int) (n Int))
  (! (and (>= (tcount L lo M mo n) 0) (<= (tcount L lo M mo n) (ite (<= n 0) 0 n))) :pattern ((tcount L lo M mo n)))))
; ---------------------------------------------------------------- run-time truth under Solver.model (signed decision levels)
; literal l is false / true under the model value m of its variable (0 = unbound, > 0 = true, < 0 = false)
;@sig sfalse : int int -> bool
(define-fun sfalse ((m Int) (l Int)) Bool (and (not (= m 0)) (not (= (> m 0) (= (mod l 2) 0)))))
;@sig strue : int int -> bool
(define-fun strue ((m Int) (l Int)) Bool (and (not (= m 0)) (= (> m 0) (= (mod l 2) 0))))
; assignment A is compatible with what the model row M says about literal l (l >= 0)
(define-fun lagree ((M (Array Int Int)) (mo Int) (A (Array Int Bool)) (l Int)) Bool
  (and (>= l 0) (=> (strue (select M (+ mo (div l 2))) l) (tv A l)) (=> (sfalse (select M (+ mo (div l 2))) l) (not (tv A l)))))
; nfsum(L, W, M, n) = sum over k < n of wt(W,k) * [L[k] is not false under M]   (the "slack" numerator)
;@sig nfsum : row rowz row int -> int
(declare-fun nfsum ((Array Int Int) Int (Array Int Int) Int Bool (Array Int Int) Int Int) Int)
(assert (forall ((L (Array Int Int)) (lo Int) (W (Array Int Int)) (wo Int) (wn Bool) (M (Array Int Int)) (mo Int) (n Int))
  (! (= (nfsum L lo W wo wn M mo n)
        (ite (<= n 0) 0 (+ (nfsum L lo W wo wn M mo (- n 1))
             (ite (sfalse (select M (+ mo (div (select L (+ lo (- n 1))) 2))) (select L (+ lo (- n 1)))) 0 (ite wn 1 (select W (+ wo (- n 1))))))))
     :pattern ((nfsum L lo W wo wn M mo n)))))
; tsum(L, W, M, n) = sum over k < n of wt(W,k) * [L[k] is true under M]
;@sig tsum : row rowz row int -> int
(declare-fun tsum ((Array Int Int) Int (Array Int Int) Int Bool (Array Int Int) Int Int) Int)
(assert (forall ((L (Array Int Int)) (lo Int) (W (Array Int Int)) (wo Int) (wn Bool) (M (Array Int Int)) (mo Int) (n Int))
  (! (= (tsum L lo W wo wn M mo n)
        (ite (<= n 0) 0 (+ (tsum L lo W wo wn M mo (- n 1))
             (ite (strue (select M (+ mo (div (select L (+ lo (- n 1))) 2))) (select L (+ lo (- n 1)))) (ite wn 1 (select W (+ wo (- n 1)))) 0))))
     :pattern ((tsum L lo W wo wn M mo n)))))
; for every assignment compatible with the model: true weight <= weight under A <= non-false weight
;@sig lem_psum_nf : row rowz asg row int -> bool
(declare-fun lem_psum_nf ((Array Int Int) Int (Array Int Int) Int Bool (Array Int Bool) (Array Int Int) Int Int) Bool)
;@lemma psum_nf
(assert (forall ((L (Array Int Int)) (lo Int) (W (Array Int Int)) (wo Int) (wn Bool) (A (Array Int Bool)) (M (Array Int Int)) (mo Int) (n Int))
  (! (and (lem_psum_nf L lo W wo wn A M mo n)
      (=> (and (or wn (forall ((j Int)) (! (=> (and (<= wo j) (< j (+ wo n))) (>= (select W j) 0)) :pattern ((select W j)))))
               (forall ((j Int)) (! (=> (and (<= lo j) (< j (+ lo n))) (lagree M mo A (select L j))) :pattern ((select L j)))))
          (and (<= (tsum L lo W wo wn M mo n) (psum L lo W wo wn A n)) (<= (psum L lo W wo wn A n) (nfsum L lo W wo wn M mo n)))))
     :pattern ((lem_psum_nf L lo W wo wn A M mo n)))))
; ... and if A makes literal i false, the weight of literal i (unless already false under M) is lost as well
;@sig lem_psum_nfu : row rowz asg row int int -> bool
(declare-fun lem_psum_nfu ((Array Int Int) Int (Array Int Int) Int Bool (Array Int Bool) (Array Int Int) Int Int Int) Bool)
;@lemma psum_nfu
(assert (forall ((L (Array Int Int)) (lo Int) (W (Array Int Int)) (wo Int) (wn Bool) (A (Array Int Bool)) (M (Array Int Int)) (mo Int) (n Int) (i Int))
  (! (and (lem_psum_nfu L lo W wo wn A M mo n i)
      (=> (and (or wn (forall ((j Int)) (! (=> (and (<= wo j) (< j (+ wo n))) (>= (select W j) 0)) :pattern ((select W j)))))
               (forall ((j Int)) (! (=> (and (<= lo j) (< j (+ lo n))) (lagree M mo A (select L j))) :pattern ((select L j))))
               (<= 0 i) (< i n) (not (tv A (select L (+ lo i)))))
          (<= (psum L lo W wo wn A n)
              (- (nfsum L lo W wo wn M mo n)
                 (ite (sfalse (select M (+ mo (div (select L (+ lo i)) 2))) (select L (+ lo i))) 0 (ite wn 1 (select W (+ wo i))))))))
     :pattern ((lem_psum_nfu L lo W wo wn A M mo n i)))))
; the true weight of a prefix is at most the true weight of a longer prefix (non-negative weights)
;@lemma tsum_mono
(assert (forall ((L (Array Int Int)) (lo Int) (W (Array Int Int)) (wo Int) (wn Bool) (M (Array Int Int)) (mo Int) (m Int) (n Int))
  (! (=> (and (or wn (forall ((j Int)) (! (=> (and (<= wo j) (< j (+ wo n))) (>= (select W j) 0)) :pattern ((select W j)))))
              (<= 0 m) (<= m n))
         (<= (tsum L lo W wo wn M mo m) (tsum L lo W wo wn M mo n)))
     :pattern ((tsum L lo W wo wn M mo m) (tsum L lo W wo wn M mo n)))))
; if the weight under A reaches the non-false weight minus s, every non-false literal heavier than s is true under A
;@sig lem_psum_tight : row rowz asg row int int -> bool
(declare-fun lem_psum_tight ((Array Int Int) Int (Array Int Int) Int Bool (Array Int Bool) (Array Int Int) Int Int Int) Bool)
;@lemma psum_tight
(assert (forall ((L (Array Int Int)) (lo Int) (W (Array Int Int)) (wo Int) (wn Bool) (A (Array Int Bool)) (M (Array Int Int)) (mo Int) (n Int) (s Int))
  (! (and (lem_psum_tight L lo W wo wn A M mo n s)
      (=> (and (or wn (forall ((j Int)) (! (=> (and (<= wo j) (< j (+ wo n))) (>= (select W j) 0)) :pattern ((select W j)))))
               (forall ((j Int)) (! (=> (and (<= lo j) (< j (+ lo n))) (lagree M mo A (select L j))) :pattern ((select L j))))
               (>= (psum L lo W wo wn A n) (- (nfsum L lo W wo wn M mo n) s)))
          (forall ((j Int)) (! (=> (and (<= lo j) (< j (+ lo n))
                                        (not (sfalse (select M (+ mo (div (select L j) 2))) (select L j)))
                                        (> (ite wn 1 (select W (+ wo (- j lo)))) s))
                                   (tv A (select L j)))
                               :pattern ((select L j))))))
     :pattern ((lem_psum_tight L lo W wo wn A M mo n s)))))
; with unit weights the non-false count grows by at most one per position
;@lemma nfsum_ub
(assert (forall ((L (Array Int Int)) (lo Int) (W (Array Int Int)) (wo Int) (M (Array Int Int)) (mo Int) (m Int) (n Int))
  (! (=> (and (<= 0 m) (<= m n))
         (<= (nfsum L lo W wo true M mo n) (+ (nfsum L lo W wo true M mo m) (- n m))))
     :pattern ((nfsum L lo W wo true M mo m) (nfsum L lo W wo true M mo n)))))
; true literals are not false: the true weight never exceeds the non-false weight (non-negative weights)
;@lemma tsum_le_nfsum
(assert (forall ((L (Array Int Int)) (lo Int) (W (Array Int Int)) (wo Int) (wn Bool) (M (Array Int Int)) (mo Int) (n Int))
  (! (=> (or wn (forall ((j Int)) (! (=> (and (<= wo j) (< j (+ wo n))) (>= (select W j) 0)) :pattern ((select W j)))))
         (<= (tsum L lo W wo wn M mo n) (nfsum L lo W wo wn M mo n)))
     :pattern ((tsum L lo W wo wn M mo n) (nfsum L lo W wo wn M mo n)))))
; the non-false weight of a prefix is at most that of a longer prefix (non-negative weights)
;@lemma nfsum_mono
(assert (forall ((L (Array Int Int)) (lo Int) (W (Array Int Int)) (wo Int) (wn Bool) (M (Array Int Int)) (mo Int) (m Int) (n Int))
  (! (=> (and (or wn (forall ((j Int)) (! (=> (and (<= wo j) (< j (+ wo n))) (>= (select W j) 0)) :pattern ((select W j)))))
              (<= 0 m) (<= m n))
         (<= (nfsum L lo W wo wn M mo m) (nfsum L lo W wo wn M mo n)))
     :pattern ((nfsum L lo W wo wn M mo m) (nfsum L lo W wo wn M mo n)))))
; a sum over non-negative weights is at least any one of its terms (explicit lemma instance)
;@sig lem_psum_elem : row rowz asg int int -> bool
(declare-fun lem_psum_elem ((Array Int Int) Int (Array Int Int) Int Bool (Array Int Bool) Int Int) Bool)
;@lemma psum_elem
(assert (forall ((L (Array Int Int)) (lo Int) (W (Array Int Int)) (wo Int) (wn Bool) (A (Array Int Bool)) (n Int) (j Int))
  (! (and (lem_psum_elem L lo W wo wn A n j)
      (=> (and (or wn (forall ((i Int)) (! (=> (and (<= wo i) (< i (+ wo n))) (>= (select W i) 0)) :pattern ((select W i)))))
               (<= 0 j) (< j n))
          (>= (psum L lo W wo wn A n) (pterm (select L (+ lo j)) (ite wn 1 (select W (+ wo j))) A))))
     :pattern ((lem_psum_elem L lo W wo wn A n j)))))
; changing one entry of a pbSet row changes the sum by the difference of the two terms
;@lemma vsum_update
(assert (forall ((R (Array Int Int)) (j Int) (v Int) (o Int) (A (Array Int Bool)) (n Int))
  (! (=> (and (<= o j) (< j (+ o n)))
         (= (vsum (store R j v) o A n)
            (+ (vsum R o A n) (- (vterm v (select A (- j o))) (vterm (select R j) (select A (- j o)))))))
     :pattern ((vsum (store R j v) o A n)))))
; a row of zeros sums to zero
;@lemma vsum_zero
(assert (forall ((R (Array Int Int)) (o Int) (A (Array Int Bool)) (n Int))
  (! (=> (forall ((j Int)) (! (=> (and (<= o j) (< j (+ o n))) (= (select R j) 0)) :pattern ((select R j))))
         (= (vsum R o A n) 0))
     :pattern ((vsum R o A n)))))
