package main

import (
	"fmt"
	"sort"
	"strings"
)

// Quantifiers generated from specification expressions.
//
// A specification quantifier ranges over a slice-relative index k, and the
// element s[k] is the array read (select row (+ off k)). Arithmetic inside a
// trigger makes E-matching miss instances, so each quantifier is emitted over an
// absolute row position j instead: for every distinct offset term `off` under
// which k is used as an index, one copy of the formula is produced in which
// (+ off k) becomes the bound variable j itself (and every other k becomes
// (- j off)); its triggers are the plain (select row j) terms. A copy over k
// itself is produced when k indexes something directly (ghost arrays, prelude
// functions). All copies are equivalent, and their conjunction is used.

type sx struct {
	atom string
	kids []*sx
}

func parseSx(s string) *sx {
	pos := 0
	var parse func() *sx
	skip := func() {
		for pos < len(s) && (s[pos] == ' ' || s[pos] == '\n' || s[pos] == '\t') {
			pos++
		}
	}
	parse = func() *sx {
		skip()
		if pos >= len(s) {
			return nil
		}
		start := pos
		if s[pos] == '(' {
			pos++
			n := &sx{}
			for {
				skip()
				if pos >= len(s) {
					break
				}
				if s[pos] == ')' {
					pos++
					break
				}
				k := parse()
				if k == nil {
					break
				}
				n.kids = append(n.kids, k)
			}
			return n
		}
		if s[pos] == '|' {
			pos++
			for pos < len(s) && s[pos] != '|' {
				pos++
			}
			pos++
		} else {
			for pos < len(s) && s[pos] != ' ' && s[pos] != ')' && s[pos] != '(' && s[pos] != '\n' && s[pos] != '\t' {
				pos++
			}
		}
		return &sx{atom: s[start:pos]}
	}
	return parse()
}

func (n *sx) String() string {
	if n.atom != "" || len(n.kids) == 0 && n.atom == "" && false {
		return n.atom
	}
	var b strings.Builder
	n.write(&b)
	return b.String()
}

func (n *sx) write(b *strings.Builder) {
	if n.kids == nil && n.atom != "" {
		b.WriteString(n.atom)
		return
	}
	b.WriteByte('(')
	for i, k := range n.kids {
		if i > 0 {
			b.WriteByte(' ')
		}
		k.write(b)
	}
	b.WriteByte(')')
}

func (n *sx) head() string {
	if n == nil || len(n.kids) == 0 {
		return ""
	}
	return n.kids[0].atom
}

func (n *sx) mentions(v string) bool {
	if n.kids == nil {
		return n.atom == v
	}
	for _, k := range n.kids {
		if k.mentions(v) {
			return true
		}
	}
	return false
}

var arithHeads = map[string]bool{"+": true, "-": true, "*": true, "div": true, "mod": true, "tdiv": true, "tmod": true, "<": true, "<=": true, ">": true, ">=": true, "=": true, "ite": true, "and": true, "or": true, "not": true, "=>": true, "absi": true, "xor": true, "distinct": true}

func (n *sx) clean() bool {
	if n.kids == nil {
		return true
	}
	h := n.head()
	if arithHeads[h] || h == "forall" || h == "exists" || h == "!" || h == "let" || h == "" {
		return false
	}
	for _, k := range n.kids[1:] {
		if !k.clean() {
			return false
		}
	}
	return true
}

// isOffsetIndex recognises (+ O v) and returns O's text.
func isOffsetIndex(idx *sx, v string) (string, bool) {
	if idx.head() == "+" && len(idx.kids) == 3 && idx.kids[2].kids == nil && idx.kids[2].atom == v && !idx.kids[1].mentions(v) {
		return idx.kids[1].String(), true
	}
	return "", false
}

// subst builds the copy of n for base offset O: (+ O v) -> j, other v -> (- j O).
func subst(n *sx, v, base, j string) *sx {
	if n.kids == nil {
		if n.atom == v {
			if base == "" {
				return &sx{atom: j}
			}
			return parseSx("(- " + j + " " + base + ")")
		}
		return n
	}
	if base != "" {
		if o, ok := isOffsetIndex(n, v); ok && o == base {
			return &sx{atom: j}
		}
	}
	out := &sx{kids: make([]*sx, len(n.kids))}
	for i, k := range n.kids {
		out.kids[i] = subst(k, v, base, j)
	}
	return out
}

// triggersFor collects trigger candidates for bound variable j in term n:
// array reads at index j and applications of uninterpreted functions with j as a direct argument.
func triggersFor(root *sx, j string) []string {
	seen := map[string]bool{}
	var out []string
	inner := map[string]int{}
	var walk func(n *sx)
	walk = func(n *sx) {
		if n.kids == nil {
			return
		}
		h := n.head()
		cand := false
		if h == "select" && len(n.kids) == 3 && n.kids[2].kids == nil && n.kids[2].atom == j {
			cand = true
		} else if h != "" && !arithHeads[h] && h != "forall" && h != "exists" && h != "!" && h != "select" && h != "store" && h != "let" {
			for _, k := range n.kids[1:] {
				if k.kids == nil && k.atom == j {
					cand = true
				}
			}
		}
		if cand && n.clean() {
			ok := true
			var chk func(m *sx)
			chk = func(m *sx) {
				if m.kids == nil {
					if inner[m.atom] > 0 {
						ok = false
					}
					return
				}
				for _, k := range m.kids {
					chk(k)
				}
			}
			chk(n)
			t := n.String()
			if ok && !seen[t] {
				seen[t] = true
				out = append(out, t)
			}
		}
		var bvs []string
		if (h == "forall" || h == "exists") && len(n.kids) >= 3 {
			for _, b := range n.kids[1].kids {
				if len(b.kids) > 0 {
					bvs = append(bvs, b.kids[0].atom)
				}
			}
		}
		for _, v := range bvs {
			inner[v]++
		}
		for _, k := range n.kids {
			walk(k)
		}
		for _, v := range bvs {
			inner[v]--
		}
	}
	walk(root)
	sort.Slice(out, func(a, b int) bool {
		if len(out[a]) != len(out[b]) {
			return len(out[a]) < len(out[b])
		}
		return out[a] < out[b]
	})
	if len(out) > 4 {
		out = out[:4]
	}
	return out
}

var quantCounter int

func buildQuant(kind string, names []string, inner string) string {
	root := parseSx(inner)
	if root == nil || len(names) != 1 {
		// multi-variable quantifiers: no index rewriting; let the solver choose triggers
		var bs []string
		for _, n := range names {
			bs = append(bs, "("+n+" Int)")
		}
		return fmt.Sprintf("(%s (%s) %s)", kind, strings.Join(bs, " "), inner)
	}
	v := names[0]
	// collect index bases
	bases := []string{}
	seen := map[string]bool{}
	bare := false
	var scan func(n *sx)
	scan = func(n *sx) {
		if n.kids == nil {
			return
		}
		h := n.head()
		if h == "select" && len(n.kids) == 3 {
			idx := n.kids[2]
			if idx.kids == nil && idx.atom == v {
				bare = true
			} else if o, ok := isOffsetIndex(idx, v); ok && !seen[o] {
				seen[o] = true
				bases = append(bases, o)
			}
		} else if h != "" && !arithHeads[h] && h != "forall" && h != "exists" && h != "store" && h != "!" {
			for _, k := range n.kids[1:] {
				if k.kids == nil && k.atom == v {
					bare = true
				}
			}
		}
		for _, k := range n.kids {
			scan(k)
		}
	}
	scan(root)
	if len(bases) > 3 {
		bases = bases[:3]
	}
	var copies []string
	mk := func(base string) {
		quantCounter++
		j := fmt.Sprintf("%s_a%d", v, quantCounter)
		t := subst(root, v, base, j)
		// triggers are chosen by addPatterns once the outermost quantifier is complete
		copies = append(copies, fmt.Sprintf("(%s ((%s Int)) %s)", kind, j, t.String()))
	}
	if bare || len(bases) == 0 {
		mk("")
	}
	for _, b := range bases {
		mk(b)
	}
	if len(copies) == 1 {
		return copies[0]
	}
	return "(and " + strings.Join(copies, " ") + ")"
}

// addPatterns annotates every single-variable quantifier of the term that has no
// pattern yet with triggers chosen from its final body.
func addPatterns(term string) string {
	root := parseSx(term)
	if root == nil {
		return term
	}
	var walk func(n *sx) *sx
	walk = func(n *sx) *sx {
		if n.kids == nil {
			return n
		}
		out := &sx{kids: make([]*sx, len(n.kids))}
		for i, k := range n.kids {
			out.kids[i] = walk(k)
		}
		h := out.head()
		if (h == "forall" || h == "exists") && len(out.kids) == 3 && len(out.kids[1].kids) == 1 {
			body := out.kids[2]
			if body.head() == "!" {
				return out
			}
			v := out.kids[1].kids[0].kids[0].atom
			trig := triggersFor(body, v)
			if len(trig) > 0 {
				ann := &sx{kids: []*sx{{atom: "!"}, body}}
				for _, p := range trig {
					ann.kids = append(ann.kids, &sx{atom: ":pattern"}, &sx{kids: []*sx{parseSx(p)}})
				}
				out.kids[2] = ann
			}
		}
		return out
	}
	return walk(root).String()
}
