package main

import (
	"sort"
	"strings"
)

// Trigger selection for quantifiers generated from specification expressions.
// Candidates are array reads (select X v) / (select X (at O v)) and
// applications of prelude functions that have a bound variable as a direct
// argument; they never contain arithmetic.

type sx struct {
	atom string
	kids []*sx
	text string
}

func parseSx(s string) *sx {
	pos := 0
	var parse func() *sx
	parse = func() *sx {
		for pos < len(s) && (s[pos] == ' ' || s[pos] == '\n' || s[pos] == '\t') {
			pos++
		}
		if pos >= len(s) {
			return nil
		}
		start := pos
		if s[pos] == '(' {
			pos++
			n := &sx{}
			for {
				for pos < len(s) && (s[pos] == ' ' || s[pos] == '\n' || s[pos] == '\t') {
					pos++
				}
				if pos >= len(s) {
					break
				}
				if s[pos] == ')' {
					pos++
					break
				}
				k := parse()
				if k == nil {
					break
				}
				n.kids = append(n.kids, k)
			}
			n.text = s[start:pos]
			return n
		}
		if s[pos] == '|' {
			pos++
			for pos < len(s) && s[pos] != '|' {
				pos++
			}
			pos++
		} else {
			for pos < len(s) && s[pos] != ' ' && s[pos] != ')' && s[pos] != '(' && s[pos] != '\n' {
				pos++
			}
		}
		return &sx{atom: s[start:pos], text: s[start:pos]}
	}
	return parse()
}

func (n *sx) head() string {
	if n == nil || len(n.kids) == 0 {
		return ""
	}
	return n.kids[0].atom
}

func (n *sx) mentions(v string) bool {
	if n.atom != "" {
		return n.atom == v
	}
	for _, k := range n.kids {
		if k.mentions(v) {
			return true
		}
	}
	return false
}

var arithHeads = map[string]bool{"+": true, "-": true, "*": true, "div": true, "mod": true, "tdiv": true, "tmod": true, "<": true, "<=": true, ">": true, ">=": true, "=": true, "ite": true, "and": true, "or": true, "not": true, "=>": true, "absi": true}

// clean reports whether the term is free of arithmetic / boolean structure
// (suitable inside a trigger).
func (n *sx) clean(bound map[string]bool) bool {
	if n.atom != "" {
		return true
	}
	h := n.head()
	if arithHeads[h] || h == "forall" || h == "exists" || h == "!" || h == "let" {
		return false
	}
	for _, k := range n.kids[1:] {
		if !k.clean(bound) {
			return false
		}
	}
	return true
}

func patternsFor(body string, vars []string) string {
	root := parseSx(body)
	if root == nil {
		return ""
	}
	bound := map[string]bool{}
	for _, v := range vars {
		bound[v] = true
	}
	cands := map[string]map[string]bool{} // text -> vars mentioned
	inner := map[string]int{} // variables bound by quantifiers nested inside the body
	var walk func(n *sx, underQ bool)
	walk = func(n *sx, underQ bool) {
		if n.atom != "" {
			return
		}
		h := n.head()
		isCand := false
		if h == "select" && len(n.kids) == 3 {
			idx := n.kids[2]
			if bound[idx.atom] {
				isCand = true
			} else if idx.head() == "at" && len(idx.kids) == 3 && bound[idx.kids[2].atom] {
				isCand = true
			}
		} else if h != "" && !arithHeads[h] && h != "forall" && h != "exists" && h != "!" && h != "select" && h != "store" && h != "at" {
			for _, k := range n.kids[1:] {
				if bound[k.atom] {
					isCand = true
				}
			}
		}
		if isCand && n.clean(bound) {
			// must not mention variables bound by inner quantifiers: approximated by
			// rejecting candidates found under an inner quantifier that mention q_ names other than ours
			ok := true
			ms := map[string]bool{}
			var collect func(m *sx)
			collect = func(m *sx) {
				if m.atom != "" {
					if bound[m.atom] {
						ms[m.atom] = true
					} else if inner[m.atom] > 0 {
						ok = false
					}
					return
				}
				for _, k := range m.kids {
					collect(k)
				}
			}
			collect(n)
			if ok && len(ms) > 0 {
				cands[n.text] = ms
			}
		}
		var bvs []string
		if (h == "forall" || h == "exists") && len(n.kids) >= 3 {
			for _, b := range n.kids[1].kids {
				if len(b.kids) > 0 {
					bvs = append(bvs, b.kids[0].atom)
				}
			}
		}
		for _, v := range bvs {
			inner[v]++
		}
		for _, k := range n.kids {
			walk(k, underQ || h == "forall" || h == "exists")
		}
		for _, v := range bvs {
			inner[v]--
		}
	}
	walk(root, false)
	if len(cands) == 0 {
		return ""
	}
	var texts []string
	for t := range cands {
		texts = append(texts, t)
	}
	sort.Slice(texts, func(i, j int) bool {
		if len(texts[i]) != len(texts[j]) {
			return len(texts[i]) < len(texts[j])
		}
		return texts[i] < texts[j]
	})
	// drop candidates that contain another candidate covering the same variables
	var keep []string
	for _, t := range texts {
		redundant := false
		for _, k := range keep {
			if strings.Contains(t, k) && len(cands[k]) >= len(cands[t]) {
				redundant = true
				break
			}
		}
		if !redundant {
			keep = append(keep, t)
		}
	}
	var pats []string
	var partial []string
	for _, t := range keep {
		if len(cands[t]) == len(vars) {
			pats = append(pats, ":pattern ("+t+")")
		} else {
			partial = append(partial, t)
		}
	}
	if len(pats) == 0 && len(partial) > 0 {
		// multi-pattern covering all variables
		covered := map[string]bool{}
		var mp []string
		for _, t := range partial {
			adds := false
			for v := range cands[t] {
				if !covered[v] {
					adds = true
				}
			}
			if adds {
				mp = append(mp, t)
				for v := range cands[t] {
					covered[v] = true
				}
			}
		}
		if len(covered) == len(vars) {
			pats = append(pats, ":pattern ("+strings.Join(mp, " ")+")")
		}
	}
	if len(pats) > 4 {
		pats = pats[:4]
	}
	return strings.Join(pats, " ")
}
