package main

import (
	"fmt"
	"go/types"
	"sort"
	"strings"
)

// ---------------------------------------------------------------- sorts / values

type Sort string

const (
	SortInt    Sort = "Int"
	SortBool   Sort = "Bool"
	SortSlice  Sort = "Slice"
	SortStr    Sort = "Str"
	SortFlt    Sort = "Flt"
	SortAsg    Sort = "(Array Int Bool)" // ghost assignment
	SortIntArr Sort = "(Array Int Int)"
)

func arrSort(elem Sort) Sort { return Sort("(Array Int " + string(elem) + ")") }

// Loc is an interior address: a field of an object, an element of a backing
// array, or a field inside such an element. It exists only on the Go side.
type Loc struct {
	Kind  string     // "field" | "elem" | "global"
	Base  string     // term: object reference (field) or array reference (elem)
	Idx   string     // term: absolute index (elem)
	Owner types.Type // struct type owning Path (field) / element type (elem) / global type
	Path  []int      // field path below Owner (may be empty)
	Root  string     // component root name ("F:T", "E:T", "G:pkg.name")
	T     types.Type // type of the value stored at the location
	// array-in-struct support: optional index into an array-typed leaf
	AIdx string
}

type Val struct {
	Sort   Sort
	Term   string
	T      types.Type
	Fields []Val // struct value or tuple
	Loc    *Loc  // interior pointer
	Comp   bool  // composite (struct/tuple)
}

func (v Val) String() string {
	if v.Comp {
		var fs []string
		for _, f := range v.Fields {
			fs = append(fs, f.String())
		}
		return "{" + strings.Join(fs, " ") + "}"
	}
	if v.Loc != nil {
		return fmt.Sprintf("&%s[%s|%s]%v", v.Loc.Root, v.Loc.Base, v.Loc.Idx, v.Loc.Path)
	}
	return v.Term
}

func intVal(t string) Val  { return Val{Sort: SortInt, Term: t} }
func boolVal(t string) Val { return Val{Sort: SortBool, Term: t} }

// ---------------------------------------------------------------- smt helpers

func app(op string, args ...string) string {
	if len(args) == 0 {
		return op
	}
	return "(" + op + " " + strings.Join(args, " ") + ")"
}

func and(args ...string) string {
	var a []string
	for _, x := range args {
		if x == "true" || x == "" {
			continue
		}
		if x == "false" {
			return "false"
		}
		a = append(a, x)
	}
	if len(a) == 0 {
		return "true"
	}
	if len(a) == 1 {
		return a[0]
	}
	return app("and", a...)
}

func or(args ...string) string {
	var a []string
	for _, x := range args {
		if x == "false" || x == "" {
			continue
		}
		if x == "true" {
			return "true"
		}
		a = append(a, x)
	}
	if len(a) == 0 {
		return "false"
	}
	if len(a) == 1 {
		return a[0]
	}
	return app("or", a...)
}

func not(x string) string {
	if x == "true" {
		return "false"
	}
	if x == "false" {
		return "true"
	}
	return app("not", x)
}

func implies(a, b string) string {
	if a == "true" {
		return b
	}
	if b == "true" || a == "false" {
		return "true"
	}
	return app("=>", a, b)
}

func ite(c, a, b string) string {
	if c == "true" {
		return a
	}
	if c == "false" {
		return b
	}
	if a == b {
		return a
	}
	return app("ite", c, a, b)
}

func num(n int64) string {
	if n < 0 {
		return fmt.Sprintf("(- %d)", -n)
	}
	return fmt.Sprintf("%d", n)
}

func sel(a, i string) string           { return app("select", a, i) }
func sto(a, i, v string) string        { return app("store", a, i, v) }
func sArr(s string) string             { return app("s-arr", s) }
func sOff(s string) string             { return app("s-off", s) }
func sLen(s string) string             { return app("s-len", s) }
func sCap(s string) string             { return app("s-cap", s) }
func mkSlice(a, o, l, c string) string { return app("mk-slice", a, o, l, c) }
func add(a, b string) string {
	if b == "0" {
		return a
	}
	if a == "0" {
		return b
	}
	return app("+", a, b)
}
func sub(a, b string) string {
	if b == "0" {
		return a
	}
	return app("-", a, b)
}

// ---------------------------------------------------------------- memory

// Mem maps component names to the SMT term holding the component's current
// value. A component missing from the map is at its initial (function entry)
// version.
type Mem struct {
	m     map[string]string
	epoch int // bumped by a total havoc: untouched components restart from a new initial version
}

func newMem() *Mem { return &Mem{m: map[string]string{}} }

func (m *Mem) clone() *Mem {
	n := &Mem{m: make(map[string]string, len(m.m)), epoch: m.epoch}
	for k, v := range m.m {
		n.m[k] = v
	}
	return n
}

func (m *Mem) keys() []string {
	var ks []string
	for k := range m.m {
		ks = append(ks, k)
	}
	sort.Strings(ks)
	return ks
}

// ---------------------------------------------------------------- VC

type Obl struct {
	Name      string
	Kind      string
	Func      string
	Guard     string
	Goal      string
	At        int // number of body lines visible
	Blk       int // index of the basic block (of the function under verification) being encoded; -1 before the first
	ExpectSat bool
	Src       string // source text of the clause / expression
	Pos       string
	// results
	Status string // unsat | sat | unknown | timeout | error
	Solver string
	TimeS  float64
	Output string
	Model  string
}

type VC struct {
	eng      *Engine
	header   []string // component / constant declarations (order-insensitive)
	lines    []string // ordered definitions and assumptions
	obls     []*Obl
	n        int
	comps    map[string]Sort // declared component -> sort
	compT    map[string]types.Type
	strs     map[string]string
	funcKey  string
	curBlk   int // basic block of the root function being encoded (for Obl.Blk)
	started  bool            // the encoding of instructions has begun (see predeclare)
	notes    []string        // unsupported / abstraction notes
	assumed  map[string]bool // trusted / opaque callees used
	oblNames map[string]int
	epochs   int
	declared map[string]bool
	specErrs []string
	inSpec   int // >0 while a specification expression is evaluated: no auxiliary constants, so that
	// the same clause evaluated twice in the same state yields syntactically identical formulas
	inQuant    int
	proveCache map[string]bool
	seenAssume map[string]int
}

func newVC(eng *Engine, funcKey string) *VC {
	return &VC{eng: eng, comps: map[string]Sort{}, compT: map[string]types.Type{}, strs: map[string]string{}, funcKey: funcKey, assumed: map[string]bool{}, oblNames: map[string]int{}, declared: map[string]bool{}}
}

func (vc *VC) fresh(hint string) string {
	vc.n++
	hint = sanitize(hint)
	return fmt.Sprintf("%s!%d", hint, vc.n)
}

func sanitize(s string) string {
	var b strings.Builder
	for _, c := range s {
		switch {
		case c >= 'a' && c <= 'z', c >= 'A' && c <= 'Z', c >= '0' && c <= '9', c == '_', c == '.':
			b.WriteRune(c)
		default:
			b.WriteRune('_')
		}
	}
	if b.Len() == 0 {
		return "x"
	}
	return b.String()
}

func (vc *VC) declare(hint string, s Sort) string {
	n := vc.fresh(hint)
	vc.lines = append(vc.lines, fmt.Sprintf("(declare-const %s %s)", n, s))
	return n
}

func (vc *VC) define(hint string, s Sort, term string) string {
	// avoid re-defining plain symbols / literals
	if !strings.ContainsAny(term, "( ") || vc.inQuant > 0 || vc.inSpec > 0 {
		return term
	}
	n := vc.fresh(hint)
	// declare + equation rather than define-fun: solvers expand define-fun macros
	// inside quantifier triggers, which then contain ite/and and are rejected
	vc.lines = append(vc.lines, fmt.Sprintf("(declare-const %s %s)", n, s), fmt.Sprintf("(assert (= %s %s))", n, term))
	return n
}

func (vc *VC) assume(guard, fact string) {
	if fact == "true" || guard == "false" || vc.inQuant > 0 {
		return
	}
	line := "(assert " + implies(guard, fact) + ")"
	if vc.seenAssume == nil {
		vc.seenAssume = map[string]int{}
	}
	if at, ok := vc.seenAssume[line]; ok && at <= len(vc.lines) && at > 0 && vc.lines[at-1] == line {
		return // identical fact already stated earlier
	}
	vc.seenAssume[line] = len(vc.lines) + 1
	vc.lines = append(vc.lines, "(assert "+implies(guard, fact)+")")
}

func (vc *VC) comment(s string) {
	vc.lines = append(vc.lines, "; "+strings.ReplaceAll(s, "\n", " "))
}

func (vc *VC) note(s string) {
	for _, n := range vc.notes {
		if n == s {
			return
		}
	}
	vc.notes = append(vc.notes, s)
}

func (vc *VC) oblige(kind, label, guard, goal, src, pos string) *Obl {
	if guard == "false" {
		return nil
	}
	base := vc.funcKey + "#" + kind
	if label != "" {
		base += ":" + label
	}
	vc.oblNames[base]++
	name := base
	if k := vc.oblNames[base]; k > 1 {
		name = fmt.Sprintf("%s~%d", base, k)
	}
	o := &Obl{Name: name, Kind: kind, Func: vc.funcKey, Guard: guard, Goal: goal, At: len(vc.lines), Blk: vc.curBlk, Src: src, Pos: pos}
	vc.obls = append(vc.obls, o)
	return o
}

// component access ------------------------------------------------------

// comp returns the current term for component c, declaring its initial
// version on first use.
func (vc *VC) comp(m *Mem, c string, s Sort) string {
	if t, ok := m.m[c]; ok {
		return t
	}
	return vc.compAt(c, s, m.epoch)
}

func (vc *VC) compInit(c string, s Sort) string { return vc.compAt(c, s, 0) }

func (vc *VC) compAt(c string, s Sort, epoch int) string {
	name := fmt.Sprintf("|%s@%d|", c, epoch)
	if old, ok := vc.comps[c]; ok && old != s {
		panic(fmt.Sprintf("component %s declared with sorts %s and %s", c, old, s))
	}
	vc.comps[c] = s
	if !vc.declared[name] {
		vc.declared[name] = true
		vc.header = append(vc.header, fmt.Sprintf("(declare-const %s %s)", name, s))
		if epoch == 0 {
			// A component first mentioned after the encoding has started may belong to objects that a
			// callee allocated meanwhile: its entry value is only constrained on rows that existed at
			// entry. Components declared up front (predeclare) used to get the invariant on every row;
			// a callee contract that hands back a freshly allocated object describes that object's
			// fields in the same (entry) version of the component, which contradicted the unguarded
			// invariant and made the continuation unreachable ((*pbSet).clause -> NewPBClause, found
			// by reach:exit). The invariant is therefore always restricted to rows that existed at entry.
			if inv := heapInv(name, s, "|alloc@0|", true); inv != "" {
				vc.header = append(vc.header, "(assert "+inv+")")
			}
			if inv := ptrElemInv(c, name, s, "|alloc@0|", true); inv != "" {
				vc.header = append(vc.header, "(assert "+inv+")")
			}
		}
	}
	return name
}

// heapInv is the well-formedness invariant of a freshly introduced heap value
// holding slices: every stored slice header is well formed and allocated.
func heapInv(term string, s Sort, alloc string, guarded bool) string {
	g := func(body string) string {
		if guarded {
			return fmt.Sprintf("(=> (<= r!h %s) %s)", alloc, body)
		}
		return body
	}
	// Only rows of objects / arrays that exist when the heap value is introduced are constrained:
	// a row above the allocation counter belongs to something allocated later (possibly inside a
	// callee, which then describes it in its postcondition), so nothing may be said about it here.
	switch s {
	case "(Array Int Slice)":
		// row 0 belongs to nil, which is never written (a write through nil panics: safe:nil obligations);
		// giving it the nil slice makes "x.f.g[*]" denote nothing when x.f is nil
		// well-formedness of a stored header is a type invariant (all rows); "allocated before the heap
		// value was introduced" only makes sense for rows that existed then
		return fmt.Sprintf("(and (forall ((r!h Int)) (! (and (wf-slice (select %s r!h)) %s) :pattern ((select %s r!h)))) (= (s-arr (select %s 0)) 0))", term, g(fmt.Sprintf("(<= (s-arr (select %s r!h)) %s)", term, alloc)), term, term)
	case "(Array Int (Array Int Slice))":
		return fmt.Sprintf("(forall ((r!h Int) (j!h Int)) (! (and (wf-slice (select (select %s r!h) j!h)) %s) :pattern ((select (select %s r!h) j!h))))", term, g(fmt.Sprintf("(<= (s-arr (select (select %s r!h) j!h)) %s)", term, alloc)), term)
	}
	return ""
}

// ptrElemInv: the elements of arrays of pointers are nil or allocated objects.
func ptrElemInv(comp, term string, s Sort, alloc string, guarded bool) string {
	if !strings.HasPrefix(comp, "E:*") || s != "(Array Int (Array Int Int))" {
		return ""
	}
	upper := fmt.Sprintf("(<= (select (select %s r!h) j!h) %s)", term, alloc)
	if guarded {
		upper = fmt.Sprintf("(=> (<= r!h %s) %s)", alloc, upper)
	}
	body := fmt.Sprintf("(and (<= 0 (select (select %s r!h) j!h)) %s)", term, upper)
	return fmt.Sprintf("(forall ((r!h Int) (j!h Int)) (! %s :pattern ((select (select %s r!h) j!h))))", body, term)
}

// declareHeap declares an unconstrained heap value (havoc) with its well-formedness invariant.
func (vc *VC) declareHeap(hint string, s Sort, alloc string) string {
	n := vc.declare(hint, s)
	if inv := heapInv(n, s, alloc, false); inv != "" {
		vc.lines = append(vc.lines, "(assert "+inv+")")
	}
	if inv := ptrElemInv(strings.TrimPrefix(hint, "hv_"), n, s, alloc, false); inv != "" {
		vc.lines = append(vc.lines, "(assert "+inv+")")
	}
	return n
}

func (vc *VC) setComp(m *Mem, c string, s Sort, term string) {
	if _, ok := vc.comps[c]; !ok {
		vc.compInit(c, s)
	}
	m.m[c] = vc.define(compHint(c), s, term)
}

func compHint(c string) string {
	return "m_" + c
}

// mergeMem builds the memory at a join: conds[i] selects mems[i].
func (vc *VC) mergeMem(conds []string, mems []*Mem) *Mem {
	if len(mems) == 1 {
		return mems[0].clone()
	}
	keys := map[string]bool{}
	for _, m := range mems {
		for k := range m.m {
			keys[k] = true
		}
	}
	var ks []string
	for k := range keys {
		ks = append(ks, k)
	}
	sort.Strings(ks)
	out := newMem()
	out.epoch = mems[0].epoch
	for _, m := range mems {
		if m.epoch != out.epoch {
			vc.epochs++
			out.epoch = vc.epochs
			break
		}
	}
	for _, k := range ks {
		s := vc.comps[k]
		terms := make([]string, len(mems))
		same := true
		for i, m := range mems {
			terms[i] = vc.comp(m, k, s)
			if terms[i] != terms[0] {
				same = false
			}
		}
		if same {
			out.m[k] = terms[0]
			continue
		}
		t := terms[len(terms)-1]
		for i := len(terms) - 2; i >= 0; i-- {
			t = ite(conds[i], terms[i], t)
		}
		out.m[k] = vc.define(compHint(k), s, t)
	}
	return out
}

// strings ------------------------------------------------------------------

func (vc *VC) strConst(s string) string {
	if s == "" {
		return "0"
	}
	if n, ok := vc.strs[s]; ok {
		return n
	}
	n := fmt.Sprintf("str!%d", len(vc.strs))
	vc.strs[s] = n
	vc.header = append(vc.header, fmt.Sprintf("(declare-const %s Str) ; %q", n, s))
	vc.header = append(vc.header, fmt.Sprintf("(assert (= (str-len %s) %d))", n, len(s)))
	vc.header = append(vc.header, fmt.Sprintf("(assert (= (str-id %s) %d))", n, len(vc.strs)))
	vc.header = append(vc.header, fmt.Sprintf("(assert (not (= %s 0)))", n))
	return n
}

// ---------------------------------------------------------------- types

func (vc *VC) sortOf(t types.Type) (Sort, bool) {
	switch u := t.Underlying().(type) {
	case *types.Basic:
		switch {
		case u.Info()&types.IsBoolean != 0:
			return SortBool, true
		case u.Info()&types.IsInteger != 0:
			return SortInt, true
		case u.Info()&types.IsString != 0:
			return SortStr, true
		case u.Info()&types.IsFloat != 0:
			return SortFlt, true
		case u.Kind() == types.UntypedNil:
			return SortInt, true
		case u.Kind() == types.UnsafePointer:
			return SortInt, true
		}
	case *types.Pointer, *types.Map, *types.Chan, *types.Signature, *types.Interface:
		return SortInt, true
	case *types.Slice:
		return SortSlice, true
	case *types.Array:
		es, ok := vc.sortOf(u.Elem())
		if ok {
			return arrSort(es), true
		}
	}
	return "", false
}

func isStruct(t types.Type) bool {
	_, ok := t.Underlying().(*types.Struct)
	return ok
}

func typeName(t types.Type) string {
	s := types.TypeString(t, func(p *types.Package) string { return p.Name() })
	return s
}

// intRange returns bounds for sized integer types (ok=false for 64-bit signed).
func intRange(t types.Type) (lo, hi string, ok bool) {
	b, isB := t.Underlying().(*types.Basic)
	if !isB || b.Info()&types.IsInteger == 0 {
		return "", "", false
	}
	switch b.Kind() {
	case types.Int8:
		return "(- 128)", "127", true
	case types.Int16:
		return "(- 32768)", "32767", true
	case types.Int32:
		return "(- 2147483648)", "2147483647", true
	case types.Uint8:
		return "0", "255", true
	case types.Uint16:
		return "0", "65535", true
	case types.Uint32:
		return "0", "4294967295", true
	case types.Uint, types.Uint64, types.Uintptr:
		return "0", "18446744073709551615", true
	case types.Int, types.Int64:
		return "(- 9223372036854775808)", "9223372036854775807", true
	}
	return "", "", false
}

func is64(t types.Type) bool {
	b, isB := t.Underlying().(*types.Basic)
	if !isB {
		return false
	}
	switch b.Kind() {
	case types.Int, types.Int64, types.Uint, types.Uint64, types.Uintptr, types.UntypedInt:
		return true
	}
	return false
}

// typeInv returns the type invariant of a scalar/slice/ref value.
func (vc *VC) typeInv(v Val, alloc string) string {
	if v.Comp {
		var cs []string
		for _, f := range v.Fields {
			cs = append(cs, vc.typeInv(f, alloc))
		}
		return and(cs...)
	}
	if v.T == nil || v.Loc != nil {
		return "true"
	}
	switch u := v.T.Underlying().(type) {
	case *types.Basic:
		if u.Info()&types.IsInteger != 0 {
			lo, hi, ok := intRange(v.T)
			if ok {
				return and(app("<=", lo, v.Term), app("<=", v.Term, hi))
			}
		}
		return "true"
	case *types.Slice:
		c := app("wf-slice", v.Term)
		if alloc != "" {
			c = and(c, app("<=", sArr(v.Term), alloc))
		}
		return c
	case *types.Pointer, *types.Map, *types.Chan, *types.Interface, *types.Signature:
		c := app("<=", "0", v.Term)
		if alloc != "" {
			c = and(c, app("<=", v.Term, alloc))
		}
		return c
	}
	return "true"
}

// leafPaths enumerates the scalar leaves of a (possibly nested) struct type.
type leaf struct {
	Path []int
	Name string // dotted field names
	T    types.Type
}

func leafPaths(t types.Type) []leaf {
	st, ok := t.Underlying().(*types.Struct)
	if !ok {
		return []leaf{{Path: nil, Name: "", T: t}}
	}
	var out []leaf
	for i := 0; i < st.NumFields(); i++ {
		f := st.Field(i)
		for _, l := range leafPaths(f.Type()) {
			p := append([]int{i}, l.Path...)
			n := f.Name()
			if l.Name != "" {
				n += "." + l.Name
			}
			out = append(out, leaf{Path: p, Name: n, T: l.T})
		}
	}
	return out
}

func pathName(owner types.Type, path []int) (string, types.Type) {
	t := owner
	var names []string
	for _, i := range path {
		st := t.Underlying().(*types.Struct)
		f := st.Field(i)
		names = append(names, f.Name())
		t = f.Type()
	}
	return strings.Join(names, "."), t
}

// chanGhostComps lists the declared ghost components describing channels.
func (vc *VC) chanGhostComps() []string {
	var out []string
	for c := range vc.comps {
		if strings.HasPrefix(c, "ghost:chan.") {
			out = append(out, c)
		}
	}
	sort.Strings(out)
	return out
}
