package main

import (
	"context"
	"fmt"
	"os"
	"path/filepath"
	"strings"
	"time"
)

// Lemma axioms of the prelude are marked ";@lemma NAME". Each has a hand-written
// induction proof in /verif/lemmas/NAME.smt2 which is checked against the prelude
// truncated just before the lemma (so a lemma may use earlier lemmas, never itself).

type lemmaRes struct {
	Name   string
	OK     bool
	Solver string
	TimeS  float64
	Output string
}

func lemmaNames(text string) []string {
	var out []string
	for _, l := range strings.Split(text, "\n") {
		l = strings.TrimSpace(l)
		if strings.HasPrefix(l, ";@lemma ") {
			out = append(out, strings.TrimSpace(strings.TrimPrefix(l, ";@lemma ")))
		}
	}
	return out
}

func checkLemmas(timeoutS int) []lemmaRes {
	var res []lemmaRes
	for _, name := range lemmaNames(preludeText) {
		idx := strings.Index(preludeText, ";@lemma "+name+"\n")
		base := preludeText[:idx]
		proof, err := os.ReadFile(filepath.Join(verifDir(), "lemmas", name+".smt2"))
		r := lemmaRes{Name: name}
		if err != nil {
			r.Output = "no proof file"
			res = append(res, r)
			continue
		}
		text := base + "\n" + string(proof)
		nchecks := strings.Count(string(proof), "(check-sat)")
		for _, cfg := range solverConfigs(timeoutS, 0) {
			ctx, cancel := context.WithTimeout(context.Background(), time.Duration(timeoutS+2)*time.Second)
			start := time.Now()
			_, out, _ := runSolver(ctx, cfg, text)
			cancel()
			uns, other := 0, 0
			for _, l := range strings.Split(out, "\n") {
				switch strings.TrimSpace(l) {
				case "unsat":
					uns++
				case "":
				default:
					other++
				}
			}
			r.Solver, r.TimeS, r.Output = cfg.name, time.Since(start).Seconds(), trimOut(out)
			if uns == nchecks && nchecks > 0 && other == 0 {
				r.OK = true
				break
			}
		}
		res = append(res, r)
	}
	return res
}

func cmdLemmas(args []string) int {
	bad := 0
	for _, r := range checkLemmas(20) {
		st := "ok  "
		if !r.OK {
			st = "FAIL"
			bad++
		}
		fmt.Printf("%s lemma:%-30s %-16s %.2fs %s\n", st, r.Name, r.Solver, r.TimeS, map[bool]string{true: "", false: r.Output}[r.OK])
	}
	if bad > 0 {
		return 1
	}
	return 0
}
