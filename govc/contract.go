package main

// Contract files: comment-only Go files (build tag verif) holding //@ lines.
//
//   //@ define NAME(p T, q U) R = EXPR          spec macro (expanded at use)
//   //@ func (*T).m | func F                     start of a function contract
//   //@   trusted                                contract assumed at call sites; body not verified
//   //@   inline                                 always inline the body at call sites
//   //@   ghost A assign                         universally quantified ghost constant
//   //@   requires name: EXPR
//   //@   ensures  name: EXPR
//   //@   modifies ITEM, ITEM                    x.f | x.f[*] | x[*] | x.* | *p | all T.f | all []T | nothing
//   //@   loop N                                 N-th loop in source order (1-based)
//   //@     invariant name: EXPR
//   //@     modifies ITEM, ...
//   //@     decreases EXPR
//   //@   assert LABEL name: EXPR                LABEL: after-call f#k | before-call f#k
//   //@   sends CH name: EXPR                    message invariant over `msg`
// A line that starts with none of the keywords continues the previous clause.

import (
	"fmt"
	"os"
	"path/filepath"
	"regexp"
	"sort"
	"strconv"
	"strings"
)

type SpecClause struct {
	Name string
	Expr *SExpr
	Src  string
}

type ModItem struct {
	All   bool   // component-wide ("all T.f" / "all []T")
	Comp  string // for All: raw text "T.f" or "[]T"
	Expr  *SExpr // base expression
	Elems bool   // x[*]
	Star  bool   // x.*
	Deref bool   // *p
	Fresh bool   // "fresh": anything allocated since the function was entered
	Src   string
}

type LoopSpec struct {
	N           int
	Invs        []SpecClause
	Modifies    []ModItem
	HasModifies bool
	Decreases   *SExpr
}

type AssertSpec struct {
	Label string
	SpecClause
}

type GhostDecl struct{ Name, Type string }

type Contract struct {
	Pkg         string // package name (last path element)
	Func        string // RelString form: F, (*T).m, (T).m
	File        string
	Trusted     bool
	Inline      bool
	Ghosts      []GhostDecl
	Requires    []SpecClause
	Ensures     []SpecClause
	Modifies    []ModItem
	HasModifies bool
	Loops       map[int]*LoopSpec
	Asserts     []AssertSpec
	Inputs      []AssertSpec // assumptions about data read from external input (listed as entry preconditions)
	Sends       []AssertSpec
	Sorts       map[string]*SortSpec         // by call label, e.g. "Sort#1"
	InlineCalls map[string]bool              // callees encoded by their bodies inside this function
	Insts       map[string]map[string]*SExpr // call label -> callee ghost name -> expression (caller's choice)
	Used        bool
}

// SortSpec describes what a call of sort.Sort may change and which facts every Swap preserves.
type SortSpec struct {
	Modifies []ModItem
	Invs     []SpecClause
}

type DefParam struct{ Name, Type string }

type Define struct {
	Name   string
	Params []DefParam
	Ret    string
	Body   *SExpr
	Pkg    string
}

type ContractSet struct {
	Funcs   map[string]*Contract // key pkgname + "." + Func
	Defines map[string]*Define   // key pkgname + "." + name, and bare name for fallback
	Files   []string
}

var kwRe = regexp.MustCompile(`^(define|func|trusted|inline-calls|inline|ghost|requires|ensures|modifies|loop|invariant|decreases|assert|assume-input|sends|sort|instantiate)\b`)

func splitTop(s string, sep byte) []string {
	var out []string
	depth := 0
	start := 0
	for i := 0; i < len(s); i++ {
		switch s[i] {
		case '(', '[':
			depth++
		case ')', ']':
			depth--
		default:
			if s[i] == sep && depth == 0 {
				out = append(out, strings.TrimSpace(s[start:i]))
				start = i + 1
			}
		}
	}
	out = append(out, strings.TrimSpace(s[start:]))
	return out
}

func parseModItems(s string) ([]ModItem, error) {
	var items []ModItem
	s = strings.TrimSpace(s)
	if s == "nothing" || s == "" {
		return nil, nil
	}
	for _, part := range splitTop(s, ',') {
		if part == "" {
			continue
		}
		it := ModItem{Src: part}
		if part == "fresh" {
			it.Fresh = true
			items = append(items, it)
			continue
		}
		if strings.HasPrefix(part, "all ") {
			it.All = true
			it.Comp = strings.TrimSpace(part[4:])
			items = append(items, it)
			continue
		}
		p := part
		if strings.HasSuffix(p, "[*]") {
			it.Elems = true
			p = strings.TrimSuffix(p, "[*]")
		} else if strings.HasSuffix(p, ".*") {
			it.Star = true
			p = strings.TrimSuffix(p, ".*")
		} else if strings.HasPrefix(p, "*") {
			it.Deref = true
			p = p[1:]
		}
		e, err := ParseSpec(p)
		if err != nil {
			return nil, err
		}
		it.Expr = e
		items = append(items, it)
	}
	return items, nil
}

func parseNamed(s string) (string, string) {
	// "name: expr" where name is an identifier (with - allowed)
	m := regexp.MustCompile(`^([A-Za-z_][A-Za-z0-9_\-]*):\s*(.*)$`).FindStringSubmatch(s)
	if m != nil {
		return m[1], m[2]
	}
	return "", s
}

func LoadContracts(files []string) (*ContractSet, error) {
	cs := &ContractSet{Funcs: map[string]*Contract{}, Defines: map[string]*Define{}}
	for _, f := range files {
		if err := cs.loadFile(f); err != nil {
			return nil, err
		}
		cs.Files = append(cs.Files, f)
	}
	return cs, nil
}

type rawStmt struct {
	kw   string
	text string
	line int
}

func (cs *ContractSet) loadFile(file string) error {
	data, err := os.ReadFile(file)
	if err != nil {
		return err
	}
	pkg := ""
	var stmts []rawStmt
	for ln, line := range strings.Split(string(data), "\n") {
		t := strings.TrimSpace(line)
		if strings.HasPrefix(t, "package ") && pkg == "" {
			pkg = strings.TrimSpace(strings.TrimPrefix(t, "package "))
			continue
		}
		if !strings.HasPrefix(t, "//@") {
			continue
		}
		t = strings.TrimSpace(strings.TrimPrefix(t, "//@"))
		if t == "" || strings.HasPrefix(t, "#") {
			continue
		}
		if m := kwRe.FindString(t); m != "" {
			stmts = append(stmts, rawStmt{m, strings.TrimSpace(t[len(m):]), ln + 1})
		} else if len(stmts) > 0 {
			stmts[len(stmts)-1].text += " " + t
		} else {
			return fmt.Errorf("%s:%d: continuation without statement", file, ln+1)
		}
	}
	if pkg == "" {
		pkg = filepath.Base(filepath.Dir(file))
	}
	var cur *Contract
	var curLoop *LoopSpec
	autoName := func(prefix string, n int) string { return prefix + strconv.Itoa(n) }
	for _, st := range stmts {
		fail := func(err error) error { return fmt.Errorf("%s:%d: %v", file, st.line, err) }
		switch st.kw {
		case "define":
			d, err := parseDefine(st.text)
			if err != nil {
				return fail(err)
			}
			d.Pkg = pkg
			cs.Defines[pkg+"."+d.Name] = d
			cur, curLoop = nil, nil
		case "func":
			name := strings.TrimSpace(st.text)
			cur = &Contract{Pkg: pkg, Func: name, File: file, Loops: map[int]*LoopSpec{}}
			if _, dup := cs.Funcs[pkg+"."+name]; dup {
				return fail(fmt.Errorf("duplicate contract for %s", name))
			}
			cs.Funcs[pkg+"."+name] = cur
			curLoop = nil
		default:
			if cur == nil {
				return fail(fmt.Errorf("%s outside func", st.kw))
			}
			switch st.kw {
			case "trusted":
				cur.Trusted = true
			case "inline":
				cur.Inline = true
			case "ghost":
				fs := strings.Fields(st.text)
				if len(fs) != 2 {
					return fail(fmt.Errorf("ghost NAME TYPE"))
				}
				cur.Ghosts = append(cur.Ghosts, GhostDecl{fs[0], fs[1]})
			case "requires", "ensures", "invariant":
				name, body := parseNamed(st.text)
				e, err := ParseSpec(body)
				if err != nil {
					return fail(err)
				}
				cl := SpecClause{Name: name, Expr: e, Src: body}
				switch st.kw {
				case "requires":
					if cl.Name == "" {
						cl.Name = autoName("r", len(cur.Requires)+1)
					}
					cur.Requires = append(cur.Requires, cl)
					curLoop = nil
				case "ensures":
					if cl.Name == "" {
						cl.Name = autoName("e", len(cur.Ensures)+1)
					}
					cur.Ensures = append(cur.Ensures, cl)
					curLoop = nil
				case "invariant":
					if curLoop == nil {
						return fail(fmt.Errorf("invariant outside loop"))
					}
					if cl.Name == "" {
						cl.Name = autoName("i", len(curLoop.Invs)+1)
					}
					curLoop.Invs = append(curLoop.Invs, cl)
				}
			case "modifies":
				items, err := parseModItems(st.text)
				if err != nil {
					return fail(err)
				}
				if curLoop != nil {
					curLoop.Modifies = append(curLoop.Modifies, items...)
					curLoop.HasModifies = true
				} else {
					cur.Modifies = append(cur.Modifies, items...)
					cur.HasModifies = true
				}
			case "loop":
				n, err := strconv.Atoi(strings.TrimSpace(st.text))
				if err != nil {
					return fail(err)
				}
				curLoop = &LoopSpec{N: n}
				cur.Loops[n] = curLoop
			case "decreases":
				if curLoop == nil {
					return fail(fmt.Errorf("decreases outside loop"))
				}
				e, err := ParseSpec(st.text)
				if err != nil {
					return fail(err)
				}
				curLoop.Decreases = e
			case "inline-calls":
				// inline-calls f, g, ... : inside this function these (loop-free) callees are
				// encoded by their bodies instead of their contracts (no precondition obligations)
				if cur.InlineCalls == nil {
					cur.InlineCalls = map[string]bool{}
				}
				for _, f := range strings.Split(st.text, ",") {
					if f = strings.TrimSpace(f); f != "" {
						cur.InlineCalls[f] = true
					}
				}
			case "instantiate":
				// instantiate f#k ghost = EXPR : the callee's ghost is chosen by the caller at this call
				fs := strings.SplitN(st.text, " ", 2)
				if len(fs) != 2 || !strings.Contains(fs[1], "=") {
					return fail(fmt.Errorf("instantiate f#k ghost = EXPR"))
				}
				kv := strings.SplitN(fs[1], "=", 2)
				e, err := ParseSpec(strings.TrimSpace(kv[1]))
				if err != nil {
					return fail(err)
				}
				if cur.Insts == nil {
					cur.Insts = map[string]map[string]*SExpr{}
				}
				if cur.Insts[fs[0]] == nil {
					cur.Insts[fs[0]] = map[string]*SExpr{}
				}
				cur.Insts[fs[0]][strings.TrimSpace(kv[0])] = e
			case "sort":
				// sort LABEL modifies ITEMS | sort LABEL invariant name: EXPR
				fs := strings.SplitN(st.text, " ", 3)
				if len(fs) != 3 {
					return fail(fmt.Errorf("sort LABEL modifies|invariant ..."))
				}
				if cur.Sorts == nil {
					cur.Sorts = map[string]*SortSpec{}
				}
				sp := cur.Sorts[fs[0]]
				if sp == nil {
					sp = &SortSpec{}
					cur.Sorts[fs[0]] = sp
				}
				switch fs[1] {
				case "modifies":
					items, err := parseModItems(fs[2])
					if err != nil {
						return fail(err)
					}
					sp.Modifies = append(sp.Modifies, items...)
				case "invariant":
					name, body := parseNamed(strings.TrimSpace(fs[2]))
					e, err := ParseSpec(body)
					if err != nil {
						return fail(err)
					}
					if name == "" {
						name = autoName("s", len(sp.Invs)+1)
					}
					sp.Invs = append(sp.Invs, SpecClause{Name: name, Expr: e, Src: body})
				default:
					return fail(fmt.Errorf("sort LABEL modifies|invariant ..."))
				}
			case "assert", "sends", "assume-input":
				// LABEL name: expr ; label is first token (may contain '#')
				fs := strings.SplitN(st.text, " ", 2)
				if len(fs) != 2 {
					return fail(fmt.Errorf("%s LABEL name: EXPR", st.kw))
				}
				label := fs[0]
				rest := strings.TrimSpace(fs[1])
				if label == "after-call" || label == "before-call" || label == "body-end" || label == "after-loop" {
					fs2 := strings.SplitN(rest, " ", 2)
					if len(fs2) != 2 {
						return fail(fmt.Errorf("assert after-call f#k name: EXPR"))
					}
					label += " " + fs2[0]
					rest = strings.TrimSpace(fs2[1])
				}
				name, body := parseNamed(rest)
				e, err := ParseSpec(body)
				if err != nil {
					return fail(err)
				}
				as := AssertSpec{Label: label, SpecClause: SpecClause{Name: name, Expr: e, Src: body}}
				if as.Name == "" {
					as.Name = autoName("a", len(cur.Asserts)+len(cur.Sends)+1)
				}
				if st.kw == "assert" {
					cur.Asserts = append(cur.Asserts, as)
				} else if st.kw == "assume-input" {
					cur.Inputs = append(cur.Inputs, as)
				} else {
					cur.Sends = append(cur.Sends, as)
				}
			}
		}
	}
	return nil
}

var defRe = regexp.MustCompile(`^([A-Za-z_][A-Za-z0-9_]*)\s*\(([^)]*)\)\s*([A-Za-z_\[\]\*\.0-9]*)\s*=\s*(.*)$`)

func parseDefine(s string) (*Define, error) {
	m := defRe.FindStringSubmatch(s)
	if m == nil {
		return nil, fmt.Errorf("bad define: %s", s)
	}
	d := &Define{Name: m[1], Ret: m[3]}
	if strings.TrimSpace(m[2]) != "" {
		for _, p := range strings.Split(m[2], ",") {
			fs := strings.Fields(p)
			if len(fs) != 2 {
				return nil, fmt.Errorf("bad define param %q", p)
			}
			d.Params = append(d.Params, DefParam{fs[0], fs[1]})
		}
	}
	e, err := ParseSpec(m[4])
	if err != nil {
		return nil, err
	}
	d.Body = e
	return d, nil
}

func (cs *ContractSet) Lookup(pkg, fn string) *Contract {
	return cs.Funcs[pkg+"."+fn]
}

func (cs *ContractSet) LookupDefine(pkg, name string) *Define {
	if d, ok := cs.Defines[pkg+"."+name]; ok {
		return d
	}
	// fall back: unique across packages
	var found *Define
	for k, d := range cs.Defines {
		if strings.HasSuffix(k, "."+name) {
			if found != nil {
				return nil
			}
			found = d
		}
	}
	return found
}

func (cs *ContractSet) SortedFuncKeys() []string {
	var ks []string
	for k := range cs.Funcs {
		ks = append(ks, k)
	}
	sort.Strings(ks)
	return ks
}
