package main

import (
	"fmt"
	"go/types"
	"strings"

	"golang.org/x/tools/go/ssa"
)

// rootOf returns the component root for objects of type t reached through a pointer.
func rootOf(t types.Type) string {
	if isStruct(t) {
		return "F:" + typeName(t)
	}
	return "C:" + typeName(t)
}

// objLoc turns an object pointer value into the location of the whole object.
func (a *Act) objLoc(p Val) *Loc {
	if p.Loc != nil {
		return p.Loc
	}
	pt, ok := p.T.Underlying().(*types.Pointer)
	if !ok {
		a.unsup("dereference of non-pointer %s", p.T)
		return &Loc{Kind: "field", Base: p.Term, Root: "C:?", Owner: p.T, T: p.T}
	}
	el := pt.Elem()
	return &Loc{Kind: "field", Base: p.Term, Root: rootOf(el), Owner: el, T: el}
}

func (l *Loc) sub(i int) *Loc {
	st := l.T.Underlying().(*types.Struct)
	n := *l
	n.Path = append(append([]int{}, l.Path...), i)
	n.T = st.Field(i).Type()
	return &n
}

func (l *Loc) compName() string {
	name, _ := pathName(l.Owner, l.Path)
	return l.Root + ":" + name
}

// compSortFor gives the SMT sort of the component holding leaves of sort s at loc.
func compSortFor(l *Loc, s Sort) Sort {
	switch l.Kind {
	case "field":
		return arrSort(s)
	case "elem":
		return arrSort(arrSort(s))
	}
	return s
}

func (a *Act) loadLoc(st *State, l *Loc) Val {
	if isStruct(l.T) {
		stt := l.T.Underlying().(*types.Struct)
		v := Val{Comp: true, T: l.T}
		for i := 0; i < stt.NumFields(); i++ {
			v.Fields = append(v.Fields, a.loadLoc(st, l.sub(i)))
		}
		return v
	}
	lt := l.T
	s, ok := a.vc.sortOf(lt)
	if !ok {
		a.unsup("load of type %s", lt)
		s = SortInt
	}
	c := l.compName()
	cs := compSortFor(l, s)
	cur := a.vc.comp(st.mem, c, cs)
	var term string
	switch l.Kind {
	case "field":
		term = sel(cur, l.Base)
	case "elem":
		term = sel(sel(cur, l.Base), l.Idx)
	default:
		term = cur
	}
	if l.AIdx != "" {
		at := lt.Underlying().(*types.Array)
		term = sel(term, l.AIdx)
		lt = at.Elem()
		s, _ = a.vc.sortOf(lt)
	}
	v := Val{Sort: s, T: lt, Term: a.vc.define("ld", s, term)}
	if _, isArr := lt.Underlying().(*types.Array); !isArr {
		a.vc.assume(st.reach, a.vc.typeInv(v, a.alloc(st)))
	}
	return v
}

func (a *Act) storeLoc(st *State, l *Loc, v Val, pos string) {
	if isStruct(l.T) {
		stt := l.T.Underlying().(*types.Struct)
		if !v.Comp || len(v.Fields) != stt.NumFields() {
			a.unsup("store of non-composite into struct location")
			return
		}
		for i := 0; i < stt.NumFields(); i++ {
			a.storeLoc(st, l.sub(i), v.Fields[i], pos)
		}
		return
	}
	if v.Loc != nil {
		a.unsup("interior pointer stored to memory")
		return
	}
	lt := l.T
	s, ok := a.vc.sortOf(lt)
	if !ok {
		a.unsup("store of type %s", lt)
		return
	}
	c := l.compName()
	cs := compSortFor(l, s)
	cur := a.vc.comp(st.mem, c, cs)
	val := v.Term
	if l.AIdx != "" {
		// update one entry of an array-typed leaf
		var old string
		switch l.Kind {
		case "field":
			old = sel(cur, l.Base)
		case "elem":
			old = sel(sel(cur, l.Base), l.Idx)
		default:
			old = cur
		}
		val = sto(old, l.AIdx, v.Term)
	}
	var nt string
	switch l.Kind {
	case "field":
		nt = sto(cur, l.Base, val)
	case "elem":
		nt = sto(cur, l.Base, sto(sel(cur, l.Base), l.Idx, val))
	default:
		nt = val
	}
	a.frameCheck(st, c, l, pos)
	a.vc.setComp(st.mem, c, cs, nt)
}

// frameCheck emits the frame obligations for a write to component c at location l.
func (a *Act) frameCheck(st *State, c string, l *Loc, pos string) {
	if a.dry || a.mode == modeSpec {
		return
	}
	if l.Kind == "global" {
		a.vc.oblige("frame", "global:"+c, st.reach, "false", "write to package-level variable "+c, pos)
		return
	}
	a.frameCheckRef(st, c, l.Base, pos)
}

func (a *Act) isFreshRef(ref string) bool {
	for _, f := range a.root().freshAllocs {
		if f.Ref == ref {
			return true
		}
	}
	return false
}

func (a *Act) frameCheckRef(st *State, c string, ref string, pos string) {
	if a.dry || a.mode == modeSpec {
		return
	}
	if a.isFreshRef(ref) && a.innermostLoop() == nil {
		return // syntactically fresh object, not inside any loop
	}
	if a.hasMods {
		goal := or(inMods(a.funcMods, c, ref), app(">", ref, a.allocE), app("=", ref, "0"))
		a.vc.oblige("frame", a.label+c, st.reach, goal, "write to "+c+" must be inside the function's modifies clause or fresh", pos)
	}
	for li := a.innermostLoop(); li != nil; li = li.parent {
		// ref 0 is nil: nothing can be written there (the write itself carries a safe:nil / bounds obligation)
		goal := or(inMods(li.items, c, ref), app(">", ref, li.threshold), app("=", ref, "0"))
		a.vc.oblige("frame", fmt.Sprintf("%sloop%d:%s", a.label, li.ord, c), st.reach, goal, "write to "+c+" inside loop must be in the loop's modifies set or allocated during the loop", pos)
	}
}

func inMods(items []modEntry, c string, ref string) string {
	var alts []string
	for _, e := range items {
		if e.matches(c) {
			if e.All {
				return "true"
			}
			alts = append(alts, app("=", ref, e.Ref))
		}
	}
	return or(alts...)
}

// ---------------------------------------------------------------- allocation

func (a *Act) newRef(st *State, hint string) string {
	al := a.alloc(st)
	r := a.vc.define(hint, SortInt, add(al, "1"))
	st.mem.m["alloc"] = r
	if _, ok := a.vc.comps["alloc"]; !ok {
		a.vc.compInit("alloc", SortInt)
	}
	return r
}

func (a *Act) noteFresh(comp, ref string) {
	if a.dry {
		return
	}
	r := a.root()
	var site ssa.Value
	if a == r {
		site = a.curSite
	}
	r.freshAllocs = append(r.freshAllocs, modEntry{Comp: comp, Ref: ref, Src: "fresh", Site: site})
}

// allocObject allocates a zeroed object of type t and returns its reference.
func (a *Act) allocObject(st *State, t types.Type, hint string) string {
	r := a.newRef(st, hint)
	root := rootOf(t)
	for _, lf := range leafPaths(t) {
		s, ok := a.vc.sortOf(lf.T)
		if !ok {
			a.unsup("allocation of field type %s", lf.T)
			continue
		}
		c := root + ":" + lf.Name
		cs := arrSort(s)
		cur := a.vc.comp(st.mem, c, cs)
		a.vc.setComp(st.mem, c, cs, sto(cur, r, zeroTerm(s, a.vc)))
		a.noteFresh(c, r)
	}
	return r
}

// elemComps lists the element-heap components for slices with element type t.
func (a *Act) elemComps(t types.Type) []struct {
	C string
	S Sort
	Z string
} {
	var out []struct {
		C string
		S Sort
		Z string
	}
	root := "E:" + typeName(t)
	for _, lf := range leafPaths(t) {
		s, ok := a.vc.sortOf(lf.T)
		if !ok {
			a.unsup("slice element field type %s", lf.T)
			continue
		}
		out = append(out, struct {
			C string
			S Sort
			Z string
		}{root + ":" + lf.Name, s, zeroTerm(s, a.vc)})
	}
	return out
}

// makeSlice allocates a zeroed backing array.
func (a *Act) makeSlice(st *State, elem types.Type, ln, cp string, hint string) string {
	r := a.newRef(st, hint)
	for _, ec := range a.elemComps(elem) {
		cs := arrSort(arrSort(ec.S))
		cur := a.vc.comp(st.mem, ec.C, cs)
		a.vc.setComp(st.mem, ec.C, cs, sto(cur, r, fmt.Sprintf("((as const %s) %s)", arrSort(ec.S), ec.Z)))
		a.noteFresh(ec.C, r)
	}
	return a.vc.define(hint+"_s", SortSlice, mkSlice(r, "0", ln, cp))
}

// elemLoc is the location of s[i].
func (a *Act) elemLoc(s Val, i string, elem types.Type) *Loc {
	return &Loc{Kind: "elem", Base: sArr(s.Term), Idx: add(sOff(s.Term), i), Root: "E:" + typeName(elem), Owner: elem, T: elem}
}

// rowTerm returns the row (Array Int τ) holding the leaves of slice s for a scalar element type.
func (a *Act) rowTerm(st *State, s Val, elem types.Type) (string, Sort) {
	es, ok := a.vc.sortOf(elem)
	if !ok {
		a.unsup("row of element type %s", elem)
		es = SortInt
	}
	c := "E:" + typeName(elem) + ":"
	cs := arrSort(arrSort(es))
	return sel(a.vc.comp(st.mem, c, cs), sArr(s.Term)), es
}

func elemTypeOf(t types.Type) types.Type {
	switch u := t.Underlying().(type) {
	case *types.Slice:
		return u.Elem()
	case *types.Array:
		return u.Elem()
	case *types.Pointer:
		return elemTypeOf(u.Elem())
	case *types.Basic:
		if u.Info()&types.IsString != 0 {
			return types.Typ[types.Byte]
		}
	}
	return nil
}

// appendModel implements append(s, t...) where extra is either a list of element
// values (variadic materialised by SSA as a fresh slice) or a slice value.
func (a *Act) appendSlice(st *State, s Val, t Val, elem types.Type, pos string) Val {
	vc := a.vc
	n := vc.define("app_n", SortInt, sLen(t.Term))
	ls := vc.define("app_len", SortInt, sLen(s.Term))
	newLen := vc.define("app_nl", SortInt, add(ls, n))
	fits := vc.define("app_fits", SortBool, app("<=", newLen, sCap(s.Term)))
	if !a.dry && vc.proveNow(st.reach, fits) {
		// the append provably stays within the backing array: in-place only
		res := vc.define("app_res", SortSlice, mkSlice(sArr(s.Term), sOff(s.Term), newLen, sCap(s.Term)))
		for _, ec := range a.elemComps(elem) {
			cs := arrSort(arrSort(ec.S))
			rs := arrSort(ec.S)
			cur := vc.comp(st.mem, ec.C, cs)
			srow := sel(cur, sArr(s.Term))
			trow := sel(cur, sArr(t.Term))
			ip := vc.declare("app_iprow", rs)
			j := "j!q"
			dst0 := add(sOff(s.Term), ls)
			vc.assume(st.reach, fmt.Sprintf("(forall ((%s Int)) (! (= (select %s %s) (ite (and (<= %s %s) (< %s %s)) (select %s (+ %s (- %s %s))) (select %s %s))) :pattern ((select %s %s))))",
				j, ip, j, dst0, j, j, add(dst0, n), trow, sOff(t.Term), j, dst0, srow, j, ip, j))
			a.frameCheckRefCond(st, ec.C, sArr(s.Term), app(">", n, "0"), pos)
			vc.setComp(st.mem, ec.C, cs, sto(cur, sArr(s.Term), ip))
		}
		return Val{Sort: SortSlice, T: s.T, Term: res}
	}
	// fresh backing array for the reallocating case
	pre := st.mem.clone()
	nr := a.newRef(st, "app_arr")
	ncap := vc.declare("app_cap", SortInt)
	vc.assume(st.reach, app("<=", newLen, ncap))
	inplace := mkSlice(sArr(s.Term), sOff(s.Term), newLen, sCap(s.Term))
	// Go: appending nothing to a nil slice yields nil
	realloc := mkSlice(nr, "0", newLen, ncap)
	res := vc.define("app_res", SortSlice, ite(fits, inplace, realloc))
	for _, ec := range a.elemComps(elem) {
		cs := arrSort(arrSort(ec.S))
		rs := arrSort(ec.S)
		cur := vc.comp(pre, ec.C, cs)
		srow := sel(cur, sArr(s.Term))
		trow := sel(cur, sArr(t.Term))
		// in-place row
		ip := vc.declare("app_iprow", rs)
		j := "j!q"
		dst0 := add(sOff(s.Term), ls)
		vc.assume(st.reach, fmt.Sprintf("(forall ((%s Int)) (! (= (select %s %s) (ite (and (<= %s %s) (< %s %s)) (select %s (+ %s (- %s %s))) (select %s %s))) :pattern ((select %s %s))))",
			j, ip, j, dst0, j, j, add(dst0, n), trow, sOff(t.Term), j, dst0, srow, j, ip, j))
		// reallocated row
		rr := vc.declare("app_rrow", rs)
		vc.assume(st.reach, fmt.Sprintf("(forall ((%s Int)) (! (= (select %s %s) (ite (and (<= 0 %s) (< %s %s)) (select %s (+ %s %s)) (ite (and (<= %s %s) (< %s %s)) (select %s (+ %s (- %s %s))) %s))) :pattern ((select %s %s))))",
			j, rr, j, j, j, ls, srow, sOff(s.Term), j, ls, j, j, newLen, trow, sOff(t.Term), j, ls, ec.Z, rr, j))
		nt := sto(sto(cur, sArr(s.Term), ite(fits, ip, srow)), nr, rr)
		vc.setComp(st.mem, ec.C, cs, nt)
		a.noteFresh(ec.C, nr)
		if !a.dry {
			// in-place append writes into the existing backing array
			a.frameCheckRefCond(st, ec.C, sArr(s.Term), and(fits, app(">", n, "0")), pos)
		}
	}
	return Val{Sort: SortSlice, T: s.T, Term: res}
}

func (a *Act) frameCheckRefCond(st *State, c, ref, cond, pos string) {
	if a.dry || a.mode == modeSpec {
		return
	}
	g := and(st.reach, cond)
	if a.hasMods {
		goal := or(inMods(a.funcMods, c, ref), app(">", ref, a.allocE))
		a.vc.oblige("frame", a.label+c, g, goal, "in-place append/copy into "+c+" must be inside the modifies clause or fresh", pos)
	}
	for li := a.innermostLoop(); li != nil; li = li.parent {
		goal := or(inMods(li.items, c, ref), app(">", ref, li.threshold))
		a.vc.oblige("frame", fmt.Sprintf("%sloop%d:%s", a.label, li.ord, c), g, goal, "in-place append/copy into "+c+" inside loop", pos)
	}
}

// appendOne implements append(s, v) for a single element.
func (a *Act) appendOne(st *State, s Val, v Val, elem types.Type, pos string) Val {
	vc := a.vc
	ls := vc.define("app_len", SortInt, sLen(s.Term))
	newLen := vc.define("app_nl", SortInt, add(ls, "1"))
	fits := vc.define("app_fits", SortBool, app("<=", newLen, sCap(s.Term)))
	if !a.dry && vc.proveNow(st.reach, fits) {
		// provably within capacity: a plain in-place store
		res := vc.define("app_res", SortSlice, mkSlice(sArr(s.Term), sOff(s.Term), newLen, sCap(s.Term)))
		flat := flattenVal(v)
		for i, ec := range a.elemComps(elem) {
			if i >= len(flat) {
				a.unsup("append of composite element")
				break
			}
			cs := arrSort(arrSort(ec.S))
			cur := vc.comp(st.mem, ec.C, cs)
			a.frameCheckRef(st, ec.C, sArr(s.Term), pos)
			vc.setComp(st.mem, ec.C, cs, sto(cur, sArr(s.Term), sto(sel(cur, sArr(s.Term)), add(sOff(s.Term), ls), flat[i].Term)))
		}
		return Val{Sort: SortSlice, T: s.T, Term: res}
	}
	pre := st.mem.clone()
	nr := a.newRef(st, "app_arr")
	ncap := vc.declare("app_cap", SortInt)
	vc.assume(st.reach, app("<=", newLen, ncap))
	res := vc.define("app_res", SortSlice, ite(fits, mkSlice(sArr(s.Term), sOff(s.Term), newLen, sCap(s.Term)), mkSlice(nr, "0", newLen, ncap)))
	leaves := leafPaths(elem)
	flat := flattenVal(v)
	for i, ec := range a.elemComps(elem) {
		if i >= len(flat) || i >= len(leaves) {
			a.unsup("append of composite element")
			break
		}
		cs := arrSort(arrSort(ec.S))
		rs := arrSort(ec.S)
		cur := vc.comp(pre, ec.C, cs)
		srow := sel(cur, sArr(s.Term))
		ip := sto(srow, add(sOff(s.Term), ls), flat[i].Term)
		rr := vc.declare("app_rrow", rs)
		j := "j!q"
		vc.assume(st.reach, fmt.Sprintf("(forall ((%s Int)) (! (= (select %s %s) (ite (and (<= 0 %s) (< %s %s)) (select %s (+ %s %s)) (ite (= %s %s) %s %s))) :pattern ((select %s %s))))",
			j, rr, j, j, j, ls, srow, sOff(s.Term), j, j, ls, flat[i].Term, ec.Z, rr, j))
		// both alternatives as row updates of one heap value (the row of the fresh array is
		// unobservable when the append stays in place): avoids an ite between whole heaps
		nt := sto(sto(cur, sArr(s.Term), ite(fits, ip, srow)), nr, rr)
		vc.setComp(st.mem, ec.C, cs, nt)
		a.noteFresh(ec.C, nr)
		a.frameCheckRefCond(st, ec.C, sArr(s.Term), fits, pos)
	}
	return Val{Sort: SortSlice, T: s.T, Term: res}
}

func flattenVal(v Val) []Val {
	if !v.Comp {
		return []Val{v}
	}
	var out []Val
	for _, f := range v.Fields {
		out = append(out, flattenVal(f)...)
	}
	return out
}

// copyModel implements copy(dst, src) and returns the number of elements copied.
func (a *Act) copySlice(st *State, dst, src Val, elem types.Type, pos string) Val {
	vc := a.vc
	n := vc.define("copy_n", SortInt, ite(app("<", sLen(dst.Term), sLen(src.Term)), sLen(dst.Term), sLen(src.Term)))
	for _, ec := range a.elemComps(elem) {
		cs := arrSort(arrSort(ec.S))
		rs := arrSort(ec.S)
		cur := vc.comp(st.mem, ec.C, cs)
		drow := sel(cur, sArr(dst.Term))
		srow := sel(cur, sArr(src.Term))
		nrw := vc.declare("copy_row", rs)
		j := "j!q"
		vc.assume(st.reach, fmt.Sprintf("(forall ((%s Int)) (! (= (select %s %s) (ite (and (<= %s %s) (< %s %s)) (select %s (+ %s (- %s %s))) (select %s %s))) :pattern ((select %s %s))))",
			j, nrw, j, sOff(dst.Term), j, j, add(sOff(dst.Term), n), srow, sOff(src.Term), j, sOff(dst.Term), drow, j, nrw, j))
		a.frameCheckRefCond(st, ec.C, sArr(dst.Term), app(">", n, "0"), pos)
		vc.setComp(st.mem, ec.C, cs, ite(app(">", n, "0"), sto(cur, sArr(dst.Term), nrw), cur))
	}
	return Val{Sort: SortInt, T: types.Typ[types.Int], Term: n}
}

// ---------------------------------------------------------------- modifies

// leafComps declares and returns the concrete components covered by location l
// (one per scalar leaf of l.T).
func (a *Act) leafComps(l *Loc) []string {
	var out []string
	base, _ := pathName(l.Owner, l.Path)
	for _, lf := range leafPaths(l.T) {
		s, ok := a.vc.sortOf(lf.T)
		if !ok {
			continue
		}
		n := base
		if lf.Name != "" {
			if n != "" {
				n += "."
			}
			n += lf.Name
		}
		c := l.Root + ":" + n
		a.vc.compInit(c, compSortFor(l, s))
		out = append(out, c)
	}
	return out
}

func (a *Act) evalModItems(items []ModItem, env *Env) []modEntry {
	var out []modEntry
	for _, it := range items {
		if it.Fresh {
			continue
		}
		if it.All {
			// "T.f" -> all objects' field f ; "[]T" -> all backing arrays of element type T
			c := it.Comp
			if strings.HasPrefix(c, "[]") {
				t := env.lookupType(c[2:])
				if t == nil {
					env.fail("modifies %s: unknown type", it.Src)
					continue
				}
				for _, cc := range a.leafComps(&Loc{Kind: "elem", Root: "E:" + typeName(t), Owner: t, T: t}) {
					out = append(out, modEntry{Comp: cc, All: true, Src: it.Src})
				}
			} else if i := strings.Index(c, "."); i > 0 {
				t := env.lookupType(c[:i])
				if t == nil || !isStruct(t) {
					env.fail("modifies %s: unknown struct type", it.Src)
					continue
				}
				l := &Loc{Kind: "field", Root: rootOf(t), Owner: t, T: t}
				okp := true
				for _, fn := range strings.Split(c[i+1:], ".") {
					st, isS := l.T.Underlying().(*types.Struct)
					found := false
					if isS {
						for k := 0; k < st.NumFields(); k++ {
							if st.Field(k).Name() == fn {
								l = l.sub(k)
								found = true
								break
							}
						}
					}
					if !found {
						okp = false
					}
				}
				if !okp {
					env.fail("modifies %s: unknown field", it.Src)
					continue
				}
				for _, cc := range a.leafComps(l) {
					out = append(out, modEntry{Comp: cc, All: true, Src: it.Src})
				}
			} else {
				env.fail("modifies %s: expected T.f or []T", it.Src)
			}
			continue
		}
		switch {
		case it.Elems:
			v := env.eval(it.Expr)
			el := elemTypeOf(v.T)
			if el == nil || v.Sort != SortSlice {
				env.fail("modifies %s: not a slice", it.Src)
				continue
			}
			for _, cc := range a.leafComps(&Loc{Kind: "elem", Root: "E:" + typeName(el), Owner: el, T: el}) {
				out = append(out, modEntry{Comp: cc, Ref: sArr(v.Term), Src: it.Src})
			}
		case it.Star, it.Deref:
			var l *Loc
			if it.Expr.Kind == SSel {
				l = env.evalLoc(it.Expr) // an embedded struct: s.Stats.*
			}
			if l == nil {
				v := env.eval(it.Expr)
				if v.Loc == nil && v.Sort != SortInt {
					env.fail("modifies %s: not a pointer", it.Src)
					continue
				}
				l = a.objLoc(v)
			}
			for _, cc := range a.leafComps(l) {
				out = append(out, modEntry{Comp: cc, Ref: l.Base, Src: it.Src})
			}
		default:
			l := env.evalLoc(it.Expr)
			if l == nil {
				env.fail("modifies %s: not a location", it.Src)
				continue
			}
			for _, cc := range a.leafComps(l) {
				out = append(out, modEntry{Comp: cc, Ref: l.Base, Src: it.Src})
			}
		}
	}
	return out
}
