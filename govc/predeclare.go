package main

import (
	"go/types"

	"golang.org/x/tools/go/ssa"
)

// predeclare declares, before the encoding of a function starts, every heap component that the
// function, the repository functions it calls (two levels) and their contracts can touch, as far
// as the static types tell. A component declared up front is re-described at every allocation
// and call (known component), so its entry invariant may speak about all rows; a component that
// shows up later only gets the invariant on rows that existed at function entry (vc.started).
func (a *Act) predeclare() {
	seenT := map[string]bool{}
	var addType func(t types.Type, depth int)
	addType = func(t types.Type, depth int) {
		if t == nil || depth > 6 {
			return
		}
		key := typeName(t)
		if seenT[key] {
			return
		}
		seenT[key] = true
		switch u := t.Underlying().(type) {
		case *types.Pointer:
			el := u.Elem()
			if isStruct(el) {
				addType(el, depth+1)
			} else if _, ok := a.vc.sortOf(el); ok {
				a.leafComps(&Loc{Kind: "field", Root: rootOf(el), Owner: el, T: el})
				addType(el, depth+1)
			}
		case *types.Struct:
			if _, named := t.(*types.Named); named || true {
				l := &Loc{Kind: "field", Root: rootOf(t), Owner: t, T: t}
				for k := 0; k < u.NumFields(); k++ {
					a.leafComps(l.sub(k))
					addType(u.Field(k).Type(), depth+1)
				}
			}
		case *types.Slice:
			el := u.Elem()
			a.leafComps(&Loc{Kind: "elem", Root: "E:" + typeName(el), Owner: el, T: el})
			addType(el, depth+1)
		case *types.Array:
			addType(u.Elem(), depth+1)
		case *types.Tuple:
			for i := 0; i < u.Len(); i++ {
				addType(u.At(i).Type(), depth+1)
			}
		}
	}
	seenF := map[*ssa.Function]bool{}
	var scan func(fn *ssa.Function, depth int)
	scan = func(fn *ssa.Function, depth int) {
		if fn == nil || seenF[fn] || depth > 2 {
			return
		}
		seenF[fn] = true
		for _, p := range fn.Params {
			addType(p.Type(), 0)
		}
		for _, fv := range fn.FreeVars {
			addType(fv.Type(), 0)
		}
		addType(fn.Signature.Results(), 0)
		for _, b := range fn.Blocks {
			for _, in := range b.Instrs {
				if v, ok := in.(ssa.Value); ok {
					addType(v.Type(), 0)
				}
				if c, ok := in.(ssa.CallInstruction); ok {
					if callee := c.Common().StaticCallee(); callee != nil && inRepo(callee) {
						scan(callee, depth+1)
					}
				}
			}
		}
	}
	defer func() {
		// a type the encoder does not support must not abort the verification here
		if r := recover(); r != nil {
			a.vc.notes = append(a.vc.notes, "predeclaration of heap components stopped early")
		}
	}()
	scan(a.fn, 0)
}
