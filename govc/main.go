package main

import (
	"flag"
	"fmt"
	"os"
	"runtime"
	"strings"
	"time"
)

func main() {
	if len(os.Args) < 2 {
		fmt.Fprintln(os.Stderr, "usage: govc verify|check|claim|list ...")
		os.Exit(2)
	}
	switch os.Args[1] {
	case "verify":
		cmdVerify(os.Args[2:])
	case "check":
		os.Exit(cmdCheck(os.Args[2:]))
	case "lemmas":
		os.Exit(cmdLemmas(os.Args[2:]))
	case "list":
		cmdList(os.Args[2:])
	default:
		fmt.Fprintln(os.Stderr, "unknown command", os.Args[1])
		os.Exit(2)
	}
}

func verifDir() string {
	if d := os.Getenv("VERIF_DIR"); d != "" {
		return d
	}
	return "/verif"
}

func repoDir() string {
	if d := os.Getenv("VERIF_REPO"); d != "" {
		return d
	}
	return "/repo"
}

func cmdList(args []string) {
	eng, err := NewEngine(repoDir(), verifDir()+"/contracts")
	if err != nil {
		fmt.Fprintln(os.Stderr, err)
		os.Exit(2)
	}
	for _, k := range eng.FuncKeys() {
		c := ""
		fn := eng.Func(k)
		if eng.contracts.Lookup(pkgName(fn), relName(fn)) != nil {
			c = " [contract]"
		}
		fmt.Println(k + c)
	}
}

func cmdVerify(args []string) {
	fs := flag.NewFlagSet("verify", flag.ExitOnError)
	fnames := fs.String("f", "", "comma separated function keys (pkg.Func); empty = all with contracts")
	timeout := fs.Int("t", 8, "per-obligation timeout (s)")
	dump := fs.String("dump", "", "directory to dump failing queries")
	dumpAll := fs.Bool("dumpall", false, "dump all queries")
	verbose := fs.Bool("v", false, "list every obligation")
	seed := fs.Int("seed", 0, "solver seed")
	fs.BoolVar(&debugReachAll, "reachall", false, "debug: add a reachability check at every block")
	fs.Parse(args)
	start := time.Now()
	eng, err := NewEngine(repoDir(), verifDir()+"/contracts")
	if err != nil {
		fmt.Fprintln(os.Stderr, err)
		os.Exit(2)
	}
	fmt.Printf("loaded in %.1fs; contracts: %d functions, %d defines\n", time.Since(start).Seconds(), len(eng.contracts.Funcs), len(eng.contracts.Defines))
	var keys []string
	if *fnames == "" {
		for _, k := range eng.contracts.SortedFuncKeys() {
			if !eng.contracts.Funcs[k].Trusted {
				keys = append(keys, k)
			}
		}
	} else {
		keys = strings.Split(*fnames, ",")
	}
	var results []*FuncResult
	var vcs []*VC
	for _, k := range keys {
		fn := eng.Func(k)
		if fn == nil {
			fmt.Printf("!! no such function %s\n", k)
			continue
		}
		ct := eng.contracts.Lookup(pkgName(fn), relName(fn))
		r := eng.encodeFunc(fn, ct)
		results = append(results, r)
		vcs = append(vcs, r.VC)
	}
	dischargeAll(vcs, *timeout, *seed, runtime.NumCPU())
	totalOK, total := 0, 0
	for _, r := range results {
		okc := 0
		for _, o := range r.VC.obls {
			if o.ok() {
				okc++
			}
		}
		total += len(r.VC.obls)
		totalOK += okc
		fmt.Printf("== %s: %d/%d obligations ok\n", r.Key, okc, len(r.VC.obls))
		for _, u := range r.Unsupported {
			fmt.Printf("   UNSUPPORTED: %s\n", u)
		}
		for _, u := range r.SpecErrs {
			fmt.Printf("   SPEC ERROR: %s\n", u)
		}
		for _, n := range r.VC.notes {
			fmt.Printf("   note: %s\n", n)
		}
		for k := range r.VC.assumed {
			fmt.Printf("   assumed: %s\n", k)
		}
		for _, o := range r.VC.obls {
			if *dumpAll && *dump != "" {
				dumpQuery(r.VC, o, *dump)
			}
			if o.ok() && !*verbose {
				continue
			}
			mark := "ok  "
			if !o.ok() {
				mark = "FAIL"
			}
			fmt.Printf("   %s %-70s %-8s %-10s %.2fs  %s\n", mark, o.Name, o.Status, o.Solver, o.TimeS, o.Pos)
			if !o.ok() {
				fmt.Printf("        %s\n", o.Src)
				if o.Status == "error" {
					fmt.Printf("        %s\n", o.Output)
				}
				if *dump != "" {
					fmt.Printf("        query: %s\n", dumpQuery(r.VC, o, *dump))
				}
			}
		}
	}
	fmt.Printf("TOTAL %d/%d in %.1fs\n", totalOK, total, time.Since(start).Seconds())
}
