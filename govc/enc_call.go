package main

import (
	"fmt"
	"go/types"
	"strings"

	"golang.org/x/tools/go/ssa"
)

const maxInlineDepth = 5

func relName(fn *ssa.Function) string {
	if fn.Pkg == nil {
		if fn.Origin() != nil && fn.Origin().Pkg != nil {
			// instantiated generic: use origin name
			return fn.Origin().RelString(fn.Origin().Pkg.Pkg)
		}
		return fn.String()
	}
	return fn.RelString(fn.Pkg.Pkg)
}

func pkgName(fn *ssa.Function) string {
	if fn.Pkg != nil {
		return fn.Pkg.Pkg.Name()
	}
	if fn.Origin() != nil && fn.Origin().Pkg != nil {
		return fn.Origin().Pkg.Pkg.Name()
	}
	if fn.Parent() != nil {
		return pkgName(fn.Parent())
	}
	return ""
}

func fullName(fn *ssa.Function) string { return pkgName(fn) + "." + relName(fn) }

func (a *Act) root() *Act {
	r := a
	for r.parentAct != nil {
		r = r.parentAct
	}
	return r
}

func (a *Act) call(instr ssa.Instruction, c *ssa.CallCommon, rt types.Type) Val {
	var args []Val
	for _, g := range c.Args {
		args = append(args, a.val(g))
	}
	return a.callWith(instr, c, rt, args)
}

func (a *Act) callWith(instr ssa.Instruction, c *ssa.CallCommon, rt types.Type, args []Val) Val {
	if b, ok := c.Value.(*ssa.Builtin); ok {
		return a.builtin(instr, b, c, rt, args)
	}
	if c.IsInvoke() {
		return a.invoke(instr, c, rt, args)
	}
	callee := c.StaticCallee()
	if callee == nil {
		a.vc.note("dynamic call through function value: treated as opaque")
		return a.opaque(instr, "dynamic call", rt, args, true)
	}
	if mc, ok := c.Value.(*ssa.MakeClosure); ok {
		// direct call of a closure literal: bind free variables
		return a.inlineCall(instr, callee, args, mc)
	}
	name := fullName(callee)
	key := relName(callee)
	a.callCnt[key]++
	k := a.callCnt[key]
	if o, ok := a.callOrd[instr]; ok {
		k = o
	}
	a.atCall("before-call "+fmt.Sprintf("%s#%d", key, k), Val{}, instr, nil)
	preCall := a.cur.clone()
	res := a.callStatic(instr, c, rt, args, callee, name, key, k)
	a.atCall("after-call "+fmt.Sprintf("%s#%d", key, k), res, instr, preCall)
	return res
}

// atCall processes assert / assume-input clauses attached to "before-call f#k" / "after-call f#k".
// Assertions are proved and then available as facts (lemma hints).
func (a *Act) atCall(label string, res Val, instr ssa.Instruction, preCall *State) {
	if a.contract == nil || a.mode == modeSpec {
		return
	}
	mk := func() *Env {
		e := a.baseEnv(a.cur)
		blk := a.curBlk
		e.resolve = func(name string) (Val, bool) { return a.resolveDom(blk, name, a.cur) }
		if li := a.inLoop[blk]; li != nil && li.stHeader != nil {
			e.head = a.headerEnv(li, li.phiHavoc, li.stHeader)
		}
		if preCall != nil {
			// prev(...) in an after-call assertion refers to the state just before the call
			pe := a.baseEnv(preCall)
			pe.resolve = func(name string) (Val, bool) { return a.resolveDom(blk, name, preCall) }
			e.prev = pe
		}
		if _, isTuple := res.T.(*types.Tuple); res.Comp && isTuple {
			for i, f := range res.Fields {
				e.vars[fmt.Sprintf("result%d", i)] = f
			}
		} else if res.Sort != "" || res.Comp {
			e.vars["result"] = res
			e.vars["result0"] = res
		}
		return e
	}
	for _, as := range a.contract.Asserts {
		if as.Label == label && !a.dry {
			lbl := as.Name
			if a.label != "" {
				lbl = a.label + lbl
			}
			t := mk().evalBool(as.Expr)
			a.vc.oblige("assert", lbl, a.cur.reach, t, as.Src, a.posOf(instr.Pos()))
			a.vc.assume(a.cur.reach, t)
		}
	}
	for _, as := range a.contract.Inputs {
		if as.Label == label {
			a.vc.assume(a.cur.reach, mk().evalBool(as.Expr))
			a.vc.assumed["input assumption ("+a.vc.funcKey+" "+as.Name+"): "+as.Src] = true
		}
	}
}

func (a *Act) callStatic(instr ssa.Instruction, c *ssa.CallCommon, rt types.Type, args []Val, callee *ssa.Function, name, key string, k int) Val {
	ct := a.vc.eng.contracts.Lookup(pkgName(callee), key)
	if rc := a.root().contract; rc != nil && rc.InlineCalls[key] && inRepo(callee) && len(callee.Blocks) > 0 && !hasLoop(callee) && !isRecursive(callee) && a.depth < maxInlineDepth {
		return a.inlineCall(instr, callee, args, nil)
	}
	if ct != nil && !ct.Inline {
		ct.Used = true
		return a.contractCall(instr, callee, ct, args, k, rt)
	}
	if name == "sort.Sort" {
		return a.sortCall(instr, c, args, fmt.Sprintf("%s#%d", key, k))
	}
	if m, ok := externModels[name]; ok {
		return m(a, instr, rt, args)
	}
	if inRepo(callee) && len(callee.Blocks) > 0 && a.depth < maxInlineDepth && (ct != nil || !hasLoop(callee)) && !isRecursive(callee) {
		return a.inlineCall(instr, callee, args, nil)
	}
	if pureExtern[name] || (callee.Pkg != nil && pureExternPkg[callee.Pkg.Pkg.Path()]) {
		a.vc.assumed["external function assumed not to touch verified memory and not to panic; result unconstrained (fresh): "+name] = true
		pre := a.alloc(a.cur)
		// returned slices / pointers are freshly allocated (or nil)
		na := a.vc.declare("alloc_x", SortInt)
		a.vc.assume("true", app("<=", pre, na))
		a.cur.mem.m["alloc"] = na
		v := a.opaque(instr, name, rt, args, false)
		if nonNilExtern[name] && v.Sort == SortInt {
			a.vc.assume(a.cur.reach, app("<", "0", v.Term))
		}
		for _, f := range flattenVal(v) {
			if f.T == nil {
				continue
			}
			switch f.T.Underlying().(type) {
			case *types.Slice:
				a.vc.assume(a.cur.reach, and(or(app("=", sArr(f.Term), "0"), app(">", sArr(f.Term), pre)), app("<=", sArr(f.Term), na), app("wf-slice", f.Term)))
			case *types.Pointer, *types.Map, *types.Chan:
				a.vc.assume(a.cur.reach, and(or(app("=", f.Term, "0"), app(">", f.Term, pre)), app("<=", f.Term, na)))
			}
		}
		return v
	}
	a.vc.assumed["opaque (memory havocked, assumed not to panic): "+name] = true
	return a.opaque(instr, name, rt, args, true)
}

// library constructors that never return nil
var nonNilExtern = map[string]bool{"fmt.Errorf": true, "errors.New": true, "bufio.NewScanner": true, "bufio.NewReader": true}

// inRepo reports whether fn belongs to the repository under verification (library
// functions are never inlined: they are modelled or treated as external).
func inRepo(fn *ssa.Function) bool {
	f := fn
	if f.Pkg == nil && f.Origin() != nil {
		f = f.Origin()
	}
	for f.Pkg == nil && f.Parent() != nil {
		f = f.Parent()
	}
	return f.Pkg != nil && strings.HasPrefix(f.Pkg.Pkg.Path(), "github.com/crillab/gophersat")
}

var pureExternPkg = map[string]bool{"strings": true, "strconv": true, "errors": true, "math": true, "unicode": true, "time": true, "bufio": true, "os": true}
var pureExtern = map[string]bool{
	"fmt.Sprintf": true, "fmt.Errorf": true, "fmt.Sprint": true, "fmt.Sprintln": true,
	"fmt.Printf": true, "fmt.Println": true, "fmt.Print": true, "fmt.Fprintf": true, "fmt.Fprintln": true,
}

func hasLoop(fn *ssa.Function) bool {
	for _, b := range fn.Blocks {
		for _, s := range b.Succs {
			if s.Dominates(b) {
				return true
			}
		}
	}
	return false
}

func isRecursive(fn *ssa.Function) bool {
	for _, b := range fn.Blocks {
		for _, in := range b.Instrs {
			if c, ok := in.(ssa.CallInstruction); ok {
				if c.Common().StaticCallee() == fn {
					return true
				}
			}
		}
	}
	return false
}

// opaque models a call whose effect is unknown.
func (a *Act) opaque(instr ssa.Instruction, name string, rt types.Type, args []Val, havoc bool) Val {
	if havoc {
		heapArg := false
		for _, g := range args {
			if g.Loc != nil || g.Comp {
				heapArg = true
			}
			if g.T != nil {
				switch g.T.Underlying().(type) {
				case *types.Pointer, *types.Slice, *types.Map, *types.Chan, *types.Interface, *types.Signature:
					heapArg = true
				}
			}
		}
		if heapArg || true {
			a.havocAll(a.cur)
		}
	}
	if rt == nil {
		return Val{}
	}
	if tup, ok := rt.(*types.Tuple); ok && tup.Len() == 0 {
		return Val{}
	}
	return a.freshVal(rt, "ret_"+sanitize(name), a.cur)
}

func (a *Act) havocAll(st *State) {
	al := a.alloc(st)
	na := a.vc.declare("alloc_hv", SortInt)
	a.vc.assume("true", app("<=", al, na))
	for _, k := range st.mem.keys() {
		if k == "alloc" {
			continue
		}
		st.mem.m[k] = a.vc.declareHeap("hv_"+k, a.vc.comps[k], na)
	}
	st.mem.m["alloc"] = na
	a.vc.epochs++
	st.mem.epoch = a.vc.epochs
}

// ---------------------------------------------------------------- contract calls

func (a *Act) bindParams(callee *ssa.Function, args []Val) map[string]Val {
	m := map[string]Val{}
	for i, p := range callee.Params {
		if i < len(args) {
			v := args[i]
			m[p.Name()] = v
		}
	}
	return m
}

func (a *Act) contractCall(instr ssa.Instruction, callee *ssa.Function, ct *Contract, args []Val, k int, rt types.Type) Val {
	vc := a.vc
	key := relName(callee)
	cname := fmt.Sprintf("%s#%d", key, k)
	if ct.Trusted {
		vc.assumed["trusted contract: "+fullName(callee)] = true
	}
	vc.comment("---- call " + cname)
	pre := a.cur.clone()
	vars := a.bindParams(callee, args)
	// ghosts: a callee contract holds for every value of its ghosts. Assignment ghosts are
	// instantiated at the caller's ghost of the same name (directly) and, in assumed
	// postconditions, additionally quantified over all assignments (trigger asgmark).
	var qghost []GhostDecl
	var allAsg []GhostDecl
	rootGhosts := a.root().ghosts
	var callerInst map[string]*SExpr
	if rc := a.root().contract; rc != nil && rc.Insts != nil && a == a.root() {
		callerInst = rc.Insts[cname]
	}
	for _, g := range ct.Ghosts {
		if ex, ok := callerInst[g.Name]; ok {
			ce := a.baseEnv(a.cur)
			blk := a.curBlk
			ce.resolve = func(name string) (Val, bool) { return a.resolveDom(blk, name, a.cur) }
			vars[g.Name] = ce.eval(ex)
			continue
		}
		if v, ok := rootGhosts[g.Name]; ok {
			vars[g.Name] = v
			if ghostSort(g.Type) == SortAsg {
				allAsg = append(allAsg, g)
			}
		} else if gt := (&Env{a: a, vars: map[string]Val{}, st: a.cur, pkg: callee.Pkg, fn: callee}).lookupType(g.Type); gt != nil {
			// a ghost of a Go type that the caller does not instantiate: one arbitrary value
			vars[g.Name] = a.freshVal(gt, "ghost_"+g.Name, a.cur)
		} else {
			qghost = append(qghost, g)
		}
	}
	mkEnv := func(st, old *State, extra map[string]Val) *Env {
		e := &Env{a: a, vars: map[string]Val{}, st: st, old: old, pkg: callee.Pkg, fn: callee}
		for n, v := range vars {
			e.vars[n] = v
		}
		for n, v := range extra {
			e.vars[n] = v
		}
		return e
	}
	quantOver := func(e *Env, gs []GhostDecl, body func() string) string {
		if len(gs) == 0 {
			return body()
		}
		var bs, marks []string
		for _, g := range gs {
			s := ghostSort(g.Type)
			n := vc.fresh("q" + g.Name)
			gv := Val{Sort: s, Term: n}
			if gt := e.lookupType(g.Type); gt != nil {
				gv.T = gt
			}
			e.vars[g.Name] = gv
			bs = append(bs, fmt.Sprintf("(%s %s)", n, s))
			if s == SortAsg {
				marks = append(marks, app("asgmark", n))
			}
		}
		vc.inQuant++
		b := body()
		vc.inQuant--
		if vc.inQuant == 0 {
			b = addPatterns(b)
		}
		if len(marks) > 0 {
			return fmt.Sprintf("(forall (%s) (! (=> %s %s) :pattern (%s)))", strings.Join(bs, " "), and(marks...), b, strings.Join(marks, " "))
		}
		return fmt.Sprintf("(forall (%s) %s)", strings.Join(bs, " "), b)
	}
	quant := func(e *Env, body func() string) string { return quantOver(e, qghost, body) }
	// preconditions
	if !a.dry && a.mode != modeSpec {
		for _, r := range ct.Requires {
			e := mkEnv(pre, pre, nil)
			t := quant(e, func() string { return e.evalBool(r.Expr) })
			lbl := fmt.Sprintf("%s:%s", cname, r.Name)
			if a.label != "" {
				lbl = a.label + lbl
			}
			vc.oblige("pre", lbl, a.cur.reach, t, r.Src, a.posOf(instr.Pos()))
		}
	}
	// frame: havoc what the callee may modify
	al := a.alloc(pre)
	na := vc.declare("alloc_c", SortInt)
	vc.assume("true", app("<=", al, na))
	e0 := mkEnv(pre, pre, nil)
	items := a.evalModItems(ct.Modifies, e0)
	for _, it := range items {
		for _, c := range a.expandComp(it.Comp) {
			s := vc.comps[c]
			if it.All {
				hv := vc.declareHeap("hv_"+c, s, na)
				// allocations of this function that the callee cannot reach keep their contents
				r := a.root()
				if a == r && strings.HasPrefix(string(s), "(Array Int ") {
					if r.escape == nil {
						r.escape = newEscapeInfo(r.fn)
					}
					curC := vc.comp(pre.mem, c, s)
					restored := map[string]bool{}
					for _, fa := range r.freshAllocs {
						if fa.Comp == c && fa.Site != nil && !restored[fa.Ref] && r.escape.isPrivate(fa.Site) {
							restored[fa.Ref] = true
							hv = vc.define("hv_"+c, s, sto(hv, fa.Ref, sel(curC, fa.Ref)))
						}
					}
				}
				a.cur.mem.m[c] = hv
				continue
			}
			a.frameCheckRef(a.cur, c, it.Ref, a.posOf(instr.Pos()))
			cur := vc.comp(a.cur.mem, c, s)
			elemSort := Sort(strings.TrimSuffix(strings.TrimPrefix(string(s), "(Array Int "), ")"))
			fv := vc.declareHeap("hv_"+c, elemSort, na)
			vc.setComp(a.cur.mem, c, s, sto(cur, it.Ref, fv))
		}
	}
	a.cur.mem.m["alloc"] = na
	// channels handed to the callee: it may send on them or close them (ghost state havocked;
	// the callee's postconditions say what is known afterwards)
	for _, g := range args {
		if g.T == nil || g.Loc != nil {
			continue
		}
		if _, isChan := g.T.Underlying().(*types.Chan); !isChan {
			continue
		}
		for _, c := range vc.chanGhostComps() {
			s := vc.comps[c]
			cur := vc.comp(a.cur.mem, c, s)
			elemSort := Sort(strings.TrimSuffix(strings.TrimPrefix(string(s), "(Array Int "), ")"))
			vc.setComp(a.cur.mem, c, s, sto(cur, g.Term, vc.declare("hv_chan", elemSort)))
		}
	}
	// result
	var res Val
	extra := map[string]Val{}
	sig := callee.Signature
	if sig.Results().Len() > 0 {
		if sig.Results().Len() == 1 {
			res = a.freshVal(sig.Results().At(0).Type(), "ret_"+sanitize(key), a.cur)
			extra["result"] = res
			if n := sig.Results().At(0).Name(); n != "" && n != "_" {
				extra[n] = res
			}
		} else {
			res = Val{Comp: true, T: sig.Results()}
			for i := 0; i < sig.Results().Len(); i++ {
				f := a.freshVal(sig.Results().At(i).Type(), fmt.Sprintf("ret%d_%s", i, sanitize(key)), a.cur)
				res.Fields = append(res.Fields, f)
				extra[fmt.Sprintf("result%d", i)] = f
				if n := sig.Results().At(i).Name(); n != "" && n != "_" {
					extra[n] = f
				}
			}
		}
	}
	// postconditions
	for _, en := range ct.Ensures {
		// a postcondition that mentions an assignment ghost holds for every assignment: it is assumed
		// in quantified form (trigger asgmark; the caller's own ghost is marked, so it is an instance)
		if len(allAsg) > 0 && mentionsGhost(en.Expr, allAsg) {
			e2 := mkEnv(a.cur, pre, extra)
			vc.assume(a.cur.reach, quantOver(e2, append(append([]GhostDecl{}, qghost...), allAsg...), func() string { return e2.evalBool(en.Expr) }))
			continue
		}
		e := mkEnv(a.cur, pre, extra)
		t := quant(e, func() string { return e.evalBool(en.Expr) })
		vc.assume(a.cur.reach, t)
	}
	return res
}

func (a *Act) expandComp(c string) []string { return []string{c} }

// ---------------------------------------------------------------- inlining

func (a *Act) inlineCall(instr ssa.Instruction, callee *ssa.Function, args []Val, mc *ssa.MakeClosure) Val {
	key := relName(callee)
	child := &Act{
		vc: a.vc, fn: callee, mode: a.mode, depth: a.depth + 1,
		vals: map[ssa.Value]Val{}, params: map[string]Val{}, ghosts: a.ghosts,
		in: map[*ssa.BasicBlock]*State{}, out: map[*ssa.BasicBlock]*State{}, edge: map[[2]int]string{},
		callCnt: map[string]int{}, dry: a.dry, parentAct: a,
		funcMods: a.funcMods, hasMods: a.hasMods, allocE: a.allocE,
	}
	if a.mode == modeVerify {
		child.mode = modeInline
	}
	if ct := a.vc.eng.contracts.Lookup(pkgName(callee), key); ct != nil && ct.Inline {
		child.contract = ct
		ct.Used = true
	}
	child.outerLoop = a.innermostLoop()
	if a.mode != modeSpec {
		n := a.root().inlCnt[key]
		a.root().inlCnt[key] = n + 1
		child.label = fmt.Sprintf("%s%s#%d/", a.label, key, n+1)
	}
	for i, p := range callee.Params {
		if i < len(args) {
			child.vals[p] = args[i]
			child.params[p.Name()] = args[i]
		}
	}
	if mc != nil {
		for i, fv := range callee.FreeVars {
			child.vals[fv] = a.val(mc.Bindings[i])
		}
	}
	child.entry = a.cur
	child.run()
	for _, u := range child.unsupported {
		a.unsup("in inlined %s: %s", key, u)
	}
	if len(child.returns) == 0 {
		// callee never returns (panics on all paths)
		a.cur = &State{mem: a.cur.mem, reach: "false"}
		if callee.Signature.Results().Len() == 0 {
			return Val{}
		}
		return a.freshVal(callee.Signature.Results(), "noret", nil)
	}
	var conds []string
	var mems []*Mem
	for _, r := range child.returns {
		conds = append(conds, r.guard)
		mems = append(mems, r.st.mem)
	}
	reach := a.vc.define("r_ret_"+sanitize(key), SortBool, or(conds...))
	a.cur = &State{mem: a.vc.mergeMem(conds, mems), reach: reach}
	nres := callee.Signature.Results().Len()
	if nres == 0 {
		return Val{}
	}
	var fields []Val
	for i := 0; i < nres; i++ {
		var vs []Val
		for _, r := range child.returns {
			vs = append(vs, r.vals[i])
		}
		fields = append(fields, a.mergeVals(conds, vs, callee.Signature.Results().At(i).Type(), "ret_"+sanitize(key)))
	}
	if nres == 1 {
		return fields[0]
	}
	return Val{Comp: true, T: callee.Signature.Results(), Fields: fields}
}

func (a *Act) innermostLoop() *loopInfo {
	if li := a.inLoop[a.curBlk]; li != nil {
		return li
	}
	return a.outerLoop
}

// ---------------------------------------------------------------- builtins

func (a *Act) builtin(instr ssa.Instruction, b *ssa.Builtin, c *ssa.CallCommon, rt types.Type, args []Val) Val {
	vc := a.vc
	switch b.Name() {
	case "len":
		v := args[0]
		switch v.Sort {
		case SortSlice:
			return Val{Sort: SortInt, T: rt, Term: vc.define("len", SortInt, sLen(v.Term))}
		case SortStr:
			r := Val{Sort: SortInt, T: rt, Term: vc.define("len", SortInt, app("str-len", v.Term))}
			return r
		case SortInt:
			switch v.T.Underlying().(type) {
			case *types.Map:
				r := vc.define("maplen", SortInt, sel(vc.comp(a.cur.mem, "ghost:map.len", arrSort(SortInt)), v.Term))
				vc.assume(a.cur.reach, app("<=", "0", r))
				return Val{Sort: SortInt, T: rt, Term: r}
			case *types.Chan:
				return a.freshVal(rt, "chanlen", a.cur)
			}
		}
		if at, ok := c.Args[0].Type().Underlying().(*types.Array); ok {
			return Val{Sort: SortInt, T: rt, Term: fmt.Sprint(at.Len())}
		}
		if pt, ok := c.Args[0].Type().Underlying().(*types.Pointer); ok {
			if at, ok := pt.Elem().Underlying().(*types.Array); ok {
				return Val{Sort: SortInt, T: rt, Term: fmt.Sprint(at.Len())}
			}
		}
	case "cap":
		if args[0].Sort == SortSlice {
			return Val{Sort: SortInt, T: rt, Term: vc.define("cap", SortInt, sCap(args[0].Term))}
		}
	case "append":
		s := args[0]
		el := elemTypeOf(s.T)
		if len(args) < 2 {
			return s
		}
		t := args[1]
		if t.Sort == SortStr {
			a.unsup("append of string bytes")
			return a.freshVal(rt, "app", a.cur)
		}
		// single element pattern: slice of a fresh [1]T array
		if sl, ok := c.Args[1].(*ssa.Slice); ok {
			if al, ok := sl.X.(*ssa.Alloc); ok {
				if at, ok := al.Type().(*types.Pointer).Elem().Underlying().(*types.Array); ok && at.Len() == 1 {
					base := a.val(al)
					ev := a.loadLoc(a.cur, &Loc{Kind: "elem", Base: base.Term, Idx: "0", Root: "E:" + typeName(el), Owner: el, T: el})
					return a.appendOne(a.cur, s, ev, el, a.posOf(instr.Pos()))
				}
			}
		}
		return a.appendSlice(a.cur, s, t, el, a.posOf(instr.Pos()))
	case "copy":
		dst, src := args[0], args[1]
		if src.Sort == SortStr {
			a.unsup("copy from string")
			return a.freshVal(rt, "copy", a.cur)
		}
		return a.copySlice(a.cur, dst, src, elemTypeOf(dst.T), a.posOf(instr.Pos()))
	case "close":
		ch := args[0].Term
		closed := sel(vc.comp(a.cur.mem, "ghost:chan.closed", arrSort(SortBool)), ch)
		a.safe("close", exprText(a.fn, c.Args[0]), and(not(app("=", ch, "0")), not(closed)), "close of nil or already closed channel", instr.Pos())
		a.chanSet(a.cur, "ghost:chan.closed", ch, "true")
		return Val{}
	case "delete":
		m := args[0]
		mt := m.T.Underlying().(*types.Map)
		dc, ds := a.mapDomComp(mt)
		cur := vc.comp(a.cur.mem, dc, ds)
		vc.setComp(a.cur.mem, dc, ds, sto(cur, m.Term, sto(sel(cur, m.Term), args[1].Term, "false")))
		a.mapLenHavoc(a.cur, m.Term)
		return Val{}
	case "print", "println":
		return Val{}
	case "ssa:wrapnilchk":
		// wrapper methods: the receiver pointer must not be nil
		if args[0].Loc == nil {
			a.safe("nil", "receiver", not(app("=", args[0].Term, "0")), "nil receiver in method wrapper", instr.Pos())
		}
		return args[0]
	case "min", "max":
		if len(args) == 2 && args[0].Sort == SortInt {
			op := "<="
			if b.Name() == "max" {
				op = ">="
			}
			return Val{Sort: SortInt, T: rt, Term: vc.define(b.Name(), SortInt, ite(app(op, args[0].Term, args[1].Term), args[0].Term, args[1].Term))}
		}
	}
	a.unsup("builtin %s", b.Name())
	if rt == nil {
		return Val{}
	}
	return a.freshVal(rt, "bi", a.cur)
}

// ---------------------------------------------------------------- interface method calls

func (a *Act) invoke(instr ssa.Instruction, c *ssa.CallCommon, rt types.Type, args []Val) Val {
	name := c.Method.Name()
	recvT := c.Value.Type().String()
	switch {
	case recvT == "error" && name == "Error":
		return a.freshVal(rt, "errstr", a.cur)
	}
	a.vc.assumed["opaque interface call (memory havocked): "+recvT+"."+name] = true
	return a.opaque(instr, recvT+"."+name, rt, args, true)
}

// ---------------------------------------------------------------- maps

func (a *Act) mapComps(mt *types.Map) (names []string, sorts []Sort, ks Sort) {
	ks, _ = a.vc.sortOf(mt.Key())
	root := "M:" + typeName(mt.Key()) + ":" + typeName(mt.Elem())
	for _, lf := range leafPaths(mt.Elem()) {
		s, ok := a.vc.sortOf(lf.T)
		if !ok {
			a.unsup("map value type %s", lf.T)
			s = SortInt
		}
		names = append(names, root+":"+lf.Name)
		sorts = append(sorts, s)
	}
	return
}

func (a *Act) mapDomComp(mt *types.Map) (string, Sort) {
	ks, _ := a.vc.sortOf(mt.Key())
	return "MD:" + typeName(mt.Key()) + ":" + typeName(mt.Elem()), arrSort(Sort("(Array " + string(ks) + " Bool)"))
}

func mapValSort(ks, vs Sort) Sort {
	return arrSort(Sort("(Array " + string(ks) + " " + string(vs) + ")"))
}

func (a *Act) mapInit(st *State, mt *types.Map, r string) {
	dc, ds := a.mapDomComp(mt)
	ks, _ := a.vc.sortOf(mt.Key())
	cur := a.vc.comp(st.mem, dc, ds)
	a.vc.setComp(st.mem, dc, ds, sto(cur, r, fmt.Sprintf("((as const (Array %s Bool)) false)", ks)))
	lc := a.vc.comp(st.mem, "ghost:map.len", arrSort(SortInt))
	a.vc.setComp(st.mem, "ghost:map.len", arrSort(SortInt), sto(lc, r, "0"))
}

func (a *Act) mapLenHavoc(st *State, r string) {
	lc := a.vc.comp(st.mem, "ghost:map.len", arrSort(SortInt))
	nl := a.vc.declare("maplen", SortInt)
	a.vc.assume("true", app("<=", "0", nl))
	a.vc.setComp(st.mem, "ghost:map.len", arrSort(SortInt), sto(lc, r, nl))
}

func (a *Act) lookup(x *ssa.Lookup) Val {
	m := a.val(x.X)
	k := a.val(x.Index)
	mt, ok := x.X.Type().Underlying().(*types.Map)
	if !ok {
		// string indexing
		a.safe("index", exprText(a.fn, x), and(app("<=", "0", k.Term), app("<", k.Term, app("str-len", m.Term))), "string index in range", x.Pos())
		v := Val{Sort: SortInt, T: x.Type(), Term: a.vc.define(x.Name(), SortInt, app("str-at", m.Term, k.Term))}
		a.vc.assume(a.cur.reach, a.vc.typeInv(v, ""))
		return v
	}
	names, sorts, ks := a.mapComps(mt)
	dc, ds := a.mapDomComp(mt)
	dom := a.vc.define("indom", SortBool, sel(sel(a.vc.comp(a.cur.mem, dc, ds), m.Term), k.Term))
	var leaves []Val
	lfs := leafPaths(mt.Elem())
	for i, n := range names {
		cs := mapValSort(ks, sorts[i])
		raw := sel(sel(a.vc.comp(a.cur.mem, n, cs), m.Term), k.Term)
		lv := Val{Sort: sorts[i], T: lfs[i].T, Term: a.vc.define("mv", sorts[i], ite(dom, raw, zeroTerm(sorts[i], a.vc)))}
		a.vc.assume(a.cur.reach, a.vc.typeInv(lv, a.alloc(a.cur)))
		leaves = append(leaves, lv)
	}
	var val Val
	if isStruct(mt.Elem()) {
		val = rebuild(mt.Elem(), &leaves)
	} else {
		val = leaves[0]
	}
	if x.CommaOk {
		return Val{Comp: true, T: x.Type(), Fields: []Val{val, {Sort: SortBool, T: types.Typ[types.Bool], Term: dom}}}
	}
	return val
}

func rebuild(t types.Type, leaves *[]Val) Val {
	if !isStruct(t) {
		v := (*leaves)[0]
		*leaves = (*leaves)[1:]
		return v
	}
	st := t.Underlying().(*types.Struct)
	out := Val{Comp: true, T: t}
	for i := 0; i < st.NumFields(); i++ {
		out.Fields = append(out.Fields, rebuild(st.Field(i).Type(), leaves))
	}
	return out
}

func (a *Act) mapUpdate(x *ssa.MapUpdate) {
	m := a.val(x.Map)
	k := a.val(x.Key)
	v := a.val(x.Value)
	mt := x.Map.Type().Underlying().(*types.Map)
	a.safe("nilmap", exprText(a.fn, x.Map), not(app("=", m.Term, "0")), "assignment to entry in nil map", x.Pos())
	names, sorts, ks := a.mapComps(mt)
	flat := flattenVal(v)
	for i, n := range names {
		cs := mapValSort(ks, sorts[i])
		cur := a.vc.comp(a.cur.mem, n, cs)
		a.frameCheckRef(a.cur, n, m.Term, a.posOf(x.Pos()))
		a.vc.setComp(a.cur.mem, n, cs, sto(cur, m.Term, sto(sel(cur, m.Term), k.Term, flat[i].Term)))
	}
	dc, ds := a.mapDomComp(mt)
	cur := a.vc.comp(a.cur.mem, dc, ds)
	a.vc.setComp(a.cur.mem, dc, ds, sto(cur, m.Term, sto(sel(cur, m.Term), k.Term, "true")))
	a.mapLenHavoc(a.cur, m.Term)
}

func (a *Act) rangeStart(x *ssa.Range) Val {
	v := a.val(x.X)
	return Val{Sort: v.Sort, T: x.X.Type(), Term: v.Term}
}

func (a *Act) rangeNext(x *ssa.Next) Val {
	it := a.val(x.Iter)
	tup := x.Type().(*types.Tuple)
	ok := Val{Sort: SortBool, T: types.Typ[types.Bool], Term: a.vc.declare("next_ok", SortBool)}
	if x.IsString {
		k := a.freshVal(tup.At(1).Type(), "next_k", a.cur)
		v := a.freshVal(tup.At(2).Type(), "next_v", a.cur)
		return Val{Comp: true, T: tup, Fields: []Val{ok, k, v}}
	}
	mt, isMap := it.T.Underlying().(*types.Map)
	if !isMap {
		a.unsup("range over %s", it.T)
		return a.freshVal(tup, "next", a.cur)
	}
	var k Val
	if _, inv := tup.At(1).Type().(*types.Basic); inv && tup.At(1).Type().(*types.Basic).Kind() == types.Invalid {
		k = a.freshVal(mt.Key(), "next_k", a.cur)
	} else {
		k = a.freshVal(mt.Key(), "next_k", a.cur)
	}
	dc, ds := a.mapDomComp(mt)
	a.vc.assume(a.cur.reach, implies(ok.Term, sel(sel(a.vc.comp(a.cur.mem, dc, ds), it.Term), k.Term)))
	names, sorts, ks := a.mapComps(mt)
	var leaves []Val
	lfs := leafPaths(mt.Elem())
	for i, n := range names {
		cs := mapValSort(ks, sorts[i])
		lv := Val{Sort: sorts[i], T: lfs[i].T, Term: a.vc.define("mv", sorts[i], sel(sel(a.vc.comp(a.cur.mem, n, cs), it.Term), k.Term))}
		a.vc.assume(a.cur.reach, a.vc.typeInv(lv, a.alloc(a.cur)))
		leaves = append(leaves, lv)
	}
	var v Val
	if isStruct(mt.Elem()) {
		v = rebuild(mt.Elem(), &leaves)
	} else {
		v = leaves[0]
	}
	return Val{Comp: true, T: tup, Fields: []Val{ok, k, v}}
}

// ---------------------------------------------------------------- channels / goroutines

func (a *Act) chanSet(st *State, comp, ch, v string) {
	s := arrSort(SortBool)
	cur := a.vc.comp(st.mem, comp, s)
	a.vc.setComp(st.mem, comp, s, sto(cur, ch, v))
}

func (a *Act) send(x *ssa.Send) {
	ch := a.val(x.Chan)
	v := a.val(x.X)
	closed := sel(a.vc.comp(a.cur.mem, "ghost:chan.closed", arrSort(SortBool)), ch.Term)
	a.safe("send", exprText(a.fn, x.Chan), not(closed), "send on closed channel", x.Pos())
	a.sendHook(x, ch, v)
}

func (a *Act) recv(x *ssa.UnOp, ch Val) Val {
	et := ch.T.Underlying().(*types.Chan).Elem()
	v := a.freshVal(et, "recv", a.cur)
	a.recvHook(x, ch, v)
	if x.CommaOk {
		ok := Val{Sort: SortBool, T: types.Typ[types.Bool], Term: a.vc.declare("recv_ok", SortBool)}
		return Val{Comp: true, T: x.Type(), Fields: []Val{v, ok}}
	}
	return v
}

func (a *Act) goStmt(x *ssa.Go) {
	name := "go statement"
	if c := x.Call.StaticCallee(); c != nil {
		name = "go " + relName(c)
	}
	// A goroutine started on a closure whose captured variables were all produced inside this
	// function (results of calls, allocations, cells of locals) can only reach memory handed to it
	// through them. When the calls that produced them are trusted not to retain the caller's
	// memory (their contracts are listed as trusted), everything that existed when this function
	// was entered is out of its reach: only memory allocated since function entry is havocked.
	if mc, ok := x.Call.Value.(*ssa.MakeClosure); ok && a == a.root() && goCapturesLocalOnly(mc) {
		a.vc.assumed["goroutine body abstracted (memory allocated since function entry havocked at spawn; the goroutine only captures values produced inside this function and is assumed not to reach memory that existed at function entry; no interleaving semantics): "+name] = true
		a.havocSince(a.cur, a.root().allocE)
		return
	}
	a.vc.assumed["goroutine body abstracted (all memory havocked at spawn; no interleaving semantics): "+name] = true
	a.havocAll(a.cur)
}

// goCapturesLocalOnly: every captured value is a local cell (Alloc) or the result of a call made
// in the spawning function; parameters, globals and values loaded from pre-existing memory are refused.
func goCapturesLocalOnly(mc *ssa.MakeClosure) bool {
	for _, b := range mc.Bindings {
		switch v := b.(type) {
		case *ssa.Alloc:
		case *ssa.Call:
			_ = v
		default:
			return false
		}
	}
	return true
}

// havocSince havocs every heap component, keeping the rows of objects allocated up to threshold.
func (a *Act) havocSince(st *State, threshold string) {
	al := a.alloc(st)
	na := a.vc.declare("alloc_hv", SortInt)
	a.vc.assume("true", app("<=", al, na))
	for _, k := range st.mem.keys() {
		if k == "alloc" {
			continue
		}
		s := a.vc.comps[k]
		cur := a.vc.comp(st.mem, k, s)
		hv := a.vc.declareHeap("hv_"+k, s, na)
		if strings.HasPrefix(string(s), "(Array Int ") && !strings.HasPrefix(k, "ghost:chan.") {
			a.vc.lines = append(a.vc.lines, fmt.Sprintf("(assert (forall ((r!f Int)) (! (=> (<= r!f %s) (= (select %s r!f) (select %s r!f))) :pattern ((select %s r!f)) :pattern ((select %s r!f)))))", threshold, hv, cur, hv, cur))
		}
		st.mem.m[k] = hv
	}
	st.mem.m["alloc"] = na
	// components not mentioned so far keep their initial version: its rows above the entry
	// allocation mark are unconstrained, which is the same as havocking them
}

func (a *Act) runDefer(d deferInfo) {
	// executes the deferred call under its registration guard
	if d.blk != a.curBlk && !d.blk.Dominates(a.curBlk) {
		// conditional registration: run on a branch and merge
		skip := &State{mem: a.cur.mem.clone(), reach: a.vc.define("r_nodefer", SortBool, and(a.cur.reach, not(d.guard)))}
		a.cur = &State{mem: a.cur.mem.clone(), reach: a.vc.define("r_defer", SortBool, and(a.cur.reach, d.guard))}
		a.callWith(d.instr, &d.instr.Call, nil, d.args)
		conds := []string{a.cur.reach, skip.reach}
		a.cur = &State{mem: a.vc.mergeMem(conds, []*Mem{a.cur.mem, skip.mem}), reach: a.vc.define("r_afterdefer", SortBool, or(conds...))}
		return
	}
	a.callWith(d.instr, &d.instr.Call, nil, d.args)
}

// hooks for message invariants (C20); filled in by chan.go
func (a *Act) sendHook(x *ssa.Send, ch, v Val) {
	if sendHookImpl != nil {
		sendHookImpl(a, x, ch, v)
	}
}
func (a *Act) recvHook(x *ssa.UnOp, ch, v Val) {
	if h := a.root().onRecv; h != nil {
		h(a, x, ch, v)
	}
}

type externModel func(a *Act, instr ssa.Instruction, rt types.Type, args []Val) Val

var externModels = map[string]externModel{}

// sortCall models sort.Sort(x): the final state is reachable by a finite sequence of
// x.Swap(i, j) calls with 0 <= i, j < x.Len() (trusted from the documentation of package sort).
// Every "sort LABEL invariant" holds before the call, is preserved by an arbitrary Swap from
// an arbitrary state satisfying the invariants (obligations), and is therefore assumed afterwards.
// Less and Swap must be panic-free for all indices in range (obligations from inlining them).
func (a *Act) sortCall(instr ssa.Instruction, c *ssa.CallCommon, args []Val, label string) Val {
	vc := a.vc
	vc.assumed["sort.Sort: permutes by calls of Swap only, with indices in [0, Len()) (package documentation)"] = true
	var spec *SortSpec
	if a.contract != nil && a.contract.Sorts != nil {
		spec = a.contract.Sorts[label]
	}
	mi, ok := c.Args[0].(*ssa.MakeInterface)
	if spec == nil || !ok {
		vc.note("sort.Sort without a sort specification: all memory havocked")
		a.havocAll(a.cur)
		return Val{}
	}
	recv := a.val(mi.X)
	rt := mi.X.Type()
	find := func(name string) *ssa.Function {
		if sel := a.fn.Prog.MethodSets.MethodSet(rt).Lookup(a.fn.Pkg.Pkg, name); sel != nil {
			return a.fn.Prog.MethodValue(sel)
		}
		return nil
	}
	fLen, fLess, fSwap := find("Len"), find("Less"), find("Swap")
	if fLen == nil || fLess == nil || fSwap == nil {
		a.unsup("sort.Sort on %s: methods not found", rt)
		return Val{}
	}
	blk := a.curBlk
	mkEnv := func(st *State) *Env {
		e := a.baseEnv(st)
		e.resolve = func(name string) (Val, bool) { return a.resolveDom(blk, name, st) }
		return e
	}
	pos := a.posOf(instr.Pos())
	// 1. invariants hold before the call
	if !a.dry {
		for _, inv := range spec.Invs {
			vc.oblige("sort", fmt.Sprintf("%s%s:%s:entry", a.label, label, inv.Name), a.cur.reach, mkEnv(a.cur).evalBool(inv.Expr), inv.Src, pos)
		}
	}
	// 2. arbitrary intermediate state
	items := a.evalModItems(spec.Modifies, mkEnv(a.cur))
	h := a.cur.clone()
	for _, it := range items {
		s := vc.comps[it.Comp]
		if it.All {
			h.mem.m[it.Comp] = vc.declareHeap("hv_"+it.Comp, s, a.alloc(h))
			continue
		}
		a.frameCheckRef(a.cur, it.Comp, it.Ref, pos)
		cur := vc.comp(h.mem, it.Comp, s)
		elemSort := Sort(strings.TrimSuffix(strings.TrimPrefix(string(s), "(Array Int "), ")"))
		fv := vc.declareHeap("hv_"+it.Comp, elemSort, a.alloc(h))
		vc.setComp(h.mem, it.Comp, s, sto(cur, it.Ref, fv))
	}
	for _, inv := range spec.Invs {
		vc.assume(h.reach, mkEnv(h).evalBool(inv.Expr))
	}
	// 3. one arbitrary Swap from that state keeps the invariants; Less/Swap are safe
	if !a.dry {
		save := a.cur
		a.cur = h.clone()
		n := a.inlineCall(instr, fLen, []Val{recv}, nil)
		i := a.freshVal(types.Typ[types.Int], "sort_i", a.cur)
		j := a.freshVal(types.Typ[types.Int], "sort_j", a.cur)
		guard := vc.define("sort_rng", SortBool, and(a.cur.reach, app("<=", "0", i.Term), app("<", i.Term, n.Term), app("<=", "0", j.Term), app("<", j.Term, n.Term)))
		a.cur = &State{mem: a.cur.mem, reach: guard}
		base := a.cur.clone()
		a.inlineCall(instr, fLess, []Val{recv, i, j}, nil)
		a.cur = base.clone()
		a.inlineCall(instr, fSwap, []Val{recv, i, j}, nil)
		after := a.cur
		for _, inv := range spec.Invs {
			vc.oblige("sort", fmt.Sprintf("%s%s:%s:step", a.label, label, inv.Name), after.reach, mkEnv(after).evalBool(inv.Expr), inv.Src, pos)
		}
		a.cur = save
	}
	a.cur = h
	return Val{}
}

func mentionsGhost(x *SExpr, gs []GhostDecl) bool {
	if x == nil {
		return false
	}
	if x.Kind == SIdent {
		for _, g := range gs {
			if g.Name == x.Name {
				return true
			}
		}
	}
	if mentionsGhost(x.X, gs) {
		return true
	}
	for _, a := range x.Args {
		if mentionsGhost(a, gs) {
			return true
		}
	}
	return false
}
