package main

import (
	"fmt"
	"go/types"

	"golang.org/x/tools/go/ssa"
)

// Ghost state of channels (sequential protocol only, no interleavings):
//   ghost:chan.closed   (Array Int Bool)  closed(ch)
//   ghost:chan.nsent    (Array Int Int)   nsent(ch): number of values sent so far
//   ghost:chan.salloc   (Array Int Int)   sendalloc(ch): allocation counter at the latest send
//   ghost:chan.last:<T>:<leaf>            lastsent(ch): the latest value sent
// A contract clause "sends CH name: EXPR" is an obligation at every send on parameter CH;
// EXPR is evaluated before the ghost update, with msg bound to the value being sent.

func (a *Act) chanLastComps(et types.Type) (names []string, sorts []Sort) {
	root := "ghost:chan.last:" + typeName(et)
	for _, lf := range leafPaths(et) {
		s, ok := a.vc.sortOf(lf.T)
		if !ok {
			s = SortInt
		}
		names = append(names, root+":"+lf.Name)
		sorts = append(sorts, s)
	}
	return
}

func (a *Act) lastSent(st *State, ch Val) Val {
	ct, ok := ch.T.Underlying().(*types.Chan)
	if !ok {
		return Val{}
	}
	et := ct.Elem()
	names, sorts := a.chanLastComps(et)
	var leaves []Val
	lfs := leafPaths(et)
	for i, n := range names {
		leaves = append(leaves, Val{Sort: sorts[i], T: lfs[i].T, Term: sel(a.vc.comp(st.mem, n, arrSort(sorts[i])), ch.Term)})
	}
	if isStruct(et) {
		return rebuild(et, &leaves)
	}
	return leaves[0]
}

func init() {
	sendHookImpl = func(a *Act, x *ssa.Send, ch, v Val) {
		vc := a.vc
		st := a.cur
		// obligations of "sends" clauses on this channel
		r := a.root()
		if r.contract != nil && !a.dry && a.mode != modeSpec {
			for _, sc := range r.contract.Sends {
				pv, ok := r.params[sc.Label]
				if !ok || pv.Term != ch.Term {
					continue
				}
				e := a.baseEnv(st)
				blk := a.curBlk
				e.resolve = func(name string) (Val, bool) { return a.resolveDom(blk, name, st) }
				if li := a.inLoop[blk]; li != nil && li.stHeader != nil {
					e.head = a.headerEnv(li, li.phiHavoc, li.stHeader)
				}
				e.vars["msg"] = v
				vc.oblige("send", fmt.Sprintf("%s%s", a.label, sc.Name), st.reach, e.evalBool(sc.Expr), sc.Src, a.posOf(x.Pos()))
			}
		}
		// ghost update
		ns := arrSort(SortInt)
		cur := vc.comp(st.mem, "ghost:chan.nsent", ns)
		vc.setComp(st.mem, "ghost:chan.nsent", ns, sto(cur, ch.Term, add(sel(cur, ch.Term), "1")))
		ca := vc.comp(st.mem, "ghost:chan.salloc", ns)
		vc.setComp(st.mem, "ghost:chan.salloc", ns, sto(ca, ch.Term, a.alloc(st)))
		et := ch.T.Underlying().(*types.Chan).Elem()
		names, sorts := a.chanLastComps(et)
		flat := flattenVal(v)
		for i, n := range names {
			if i >= len(flat) {
				break
			}
			cs := arrSort(sorts[i])
			c := vc.comp(st.mem, n, cs)
			vc.setComp(st.mem, n, cs, sto(c, ch.Term, flat[i].Term))
		}
	}
}

var sendHookImpl func(a *Act, x *ssa.Send, ch, v Val)
