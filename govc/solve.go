package main

import (
	"bytes"
	"context"
	"fmt"
	"os"
	"os/exec"
	"regexp"
	"strings"
	"sync"
	"time"
)

var pipeSymRe = regexp.MustCompile(`\|[^|]+\|`)

type solverCfg struct {
	name string
	cmd  []string
	pre  string
}

func solverConfigs(timeoutS int, seed int) []solverCfg {
	z3opts := fmt.Sprintf("(set-option :smt.mbqi false)\n(set-option :auto_config false)\n(set-option :smt.random_seed %d)\n", seed)
	z3def := fmt.Sprintf("(set-option :smt.random_seed %d)\n", seed)
	return []solverCfg{
		{"z3-5.1.0", []string{"z3-new", "-in", fmt.Sprintf("-T:%d", timeoutS)}, z3def},
		{"z3-5.1.0/ematch", []string{"z3-new", "-in", fmt.Sprintf("-T:%d", timeoutS)}, z3opts},
		{"z3-4.8.12/ematch", []string{"z3", "-in", fmt.Sprintf("-T:%d", timeoutS)}, z3opts},
		{"z3-4.8.12", []string{"z3", "-in", fmt.Sprintf("-T:%d", timeoutS)}, z3def},
		{"cvc5-1.0", []string{"cvc5", "--lang=smt2", fmt.Sprintf("--tlimit=%d", timeoutS*1000), "--full-saturate-quant", fmt.Sprintf("--seed=%d", seed)}, "(set-logic ALL)\n"},
	}
}

func (vc *VC) queryText(o *Obl, wantModel bool) string {
	var b strings.Builder
	b.WriteString(vc.eng.prelude.text)
	// components that the body of this query never mentions are left out together with their
	// invariants (predeclare declares many that a given function does not touch)
	var body strings.Builder
	for _, l := range vc.lines[:o.At] {
		body.WriteString(l)
		body.WriteByte('\n')
	}
	bodyText := body.String() + o.Guard + " " + o.Goal
	b.WriteString("\n; ---- components\n")
	syms := make([][]string, len(vc.header))
	for k, h := range vc.header {
		syms[k] = pipeSymRe.FindAllString(h, -1)
	}
	// assertions (invariants) are kept when the component they are about occurs in the body;
	// declarations are kept for every symbol that the body or a kept assertion mentions
	needed := map[string]bool{"|alloc@0|": true}
	include := make([]bool, len(vc.header))
	for k, h := range vc.header {
		if strings.HasPrefix(h, "(declare-") {
			continue
		}
		if len(syms[k]) == 0 || syms[k][0] == "|alloc@0|" || strings.Contains(bodyText, syms[k][0]) {
			include[k] = true
			for _, sy := range syms[k] {
				needed[sy] = true
			}
		}
	}
	for k, h := range vc.header {
		if strings.HasPrefix(h, "(declare-") {
			if len(syms[k]) == 0 || needed[syms[k][0]] || strings.Contains(bodyText, syms[k][0]) {
				include[k] = true
			}
		}
	}
	for k, h := range vc.header {
		if include[k] {
			b.WriteString(h)
			b.WriteByte('\n')
		}
	}
	b.WriteString("; ---- body\n")
	b.WriteString(body.String())
	fmt.Fprintf(&b, "; ---- obligation %s\n; %s\n", o.Name, strings.ReplaceAll(o.Src, "\n", " "))
	fmt.Fprintf(&b, "(assert %s)\n(assert (not %s))\n(check-sat)\n", o.Guard, o.Goal)
	if wantModel {
		b.WriteString("(get-model)\n")
	}
	return b.String()
}

func runSolver(ctx context.Context, cfg solverCfg, text string) (status string, out string, dur float64) {
	start := time.Now()
	cmd := exec.CommandContext(ctx, cfg.cmd[0], cfg.cmd[1:]...)
	cmd.Stdin = strings.NewReader(cfg.pre + text)
	var buf bytes.Buffer
	cmd.Stdout = &buf
	cmd.Stderr = &buf
	err := cmd.Run()
	dur = time.Since(start).Seconds()
	out = buf.String()
	first := strings.TrimSpace(strings.SplitN(out, "\n", 2)[0])
	switch first {
	case "unsat", "sat", "unknown":
		return first, out, dur
	case "timeout":
		return "timeout", out, dur
	}
	if ctx.Err() != nil {
		return "timeout", out, dur
	}
	if err != nil || strings.Contains(out, "error") {
		return "error", out, dur
	}
	return "unknown", out, dur
}

// quickTry runs the fastest configuration alone with a short timeout.
func (vc *VC) quickTry(o *Obl, timeoutS int, seed int) bool {
	text := vc.queryText(o, false)
	quick := 3
	if timeoutS < quick {
		quick = timeoutS
	}
	qc := solverConfigs(quick, seed)[0]
	ctx, cancel := context.WithTimeout(context.Background(), time.Duration(quick+1)*time.Second)
	st, out, d := runSolver(ctx, qc, text)
	cancel()
	o.Status, o.Solver, o.TimeS, o.Output = st, qc.name, d, trimOut(out)
	if st == "unsat" || (st == "sat" && !o.ExpectSat) {
		if st == "sat" {
			vc.fetchModel(o, qc, text)
		}
		return true
	}
	if o.ExpectSat && st != "error" {
		return true
	}
	return false
}

// race runs every configuration in parallel; the first definite answer wins.
func (vc *VC) race(o *Obl, timeoutS int, seed int) {
	text := vc.queryText(o, false)
	cfgs := solverConfigs(timeoutS, seed)
	d := o.TimeS
	type res struct {
		st, out, name string
		d             float64
	}
	ctx2, cancel2 := context.WithTimeout(context.Background(), time.Duration(timeoutS+2)*time.Second)
	defer cancel2()
	ch := make(chan res, len(cfgs))
	for _, c := range cfgs {
		go func(c solverCfg) {
			s, o2, d2 := runSolver(ctx2, c, text)
			ch <- res{s, o2, c.name, d2}
		}(c)
	}
	var errs []string
	o.Status = ""
	for range cfgs {
		r := <-ch
		if r.st == "unsat" || r.st == "sat" {
			o.Status, o.Solver, o.TimeS, o.Output = r.st, r.name, r.d+d, trimOut(r.out)
			cancel2()
			if r.st == "sat" {
				for _, c := range cfgs {
					if c.name == r.name {
						vc.fetchModel(o, c, text)
					}
				}
			}
			return
		}
		if r.st == "error" {
			errs = append(errs, r.name+": "+trimOut(r.out))
		} else if o.Status == "" || o.Status == "unknown" {
			o.Status, o.Solver, o.Output = r.st, r.name, trimOut(r.out)
		}
		o.TimeS = r.d + d
	}
	if len(errs) == len(cfgs) {
		o.Status = "error"
		o.Output = strings.Join(errs, "\n")
	} else if o.Status == "" {
		o.Status = "unknown"
	}
}

func (vc *VC) fetchModel(o *Obl, c solverCfg, text string) {
	ctx, cancel := context.WithTimeout(context.Background(), 10*time.Second)
	defer cancel()
	_, out, _ := runSolver(ctx, c, strings.Replace(text, "(check-sat)\n", "(check-sat)\n(get-model)\n", 1))
	if len(out) > 20000 {
		out = out[:20000] + "\n...truncated"
	}
	o.Model = out
}

func trimOut(s string) string {
	s = strings.TrimSpace(s)
	if len(s) > 600 {
		s = s[:600] + "..."
	}
	return s
}

// importantObl decides which obligations get the full race; the others (unclaimed ones in a
// check run) only get the short first attempt and are reported as unproved.
var importantObl func(o *Obl) bool

func dischargeAll(vcs []*VC, timeoutS, seed, workers int) {
	type job struct {
		vc *VC
		o  *Obl
	}
	// phase 1: one fast solver per obligation, all cores
	var hard []job
	var mu sync.Mutex
	jobs := make(chan job)
	var wg sync.WaitGroup
	for i := 0; i < workers; i++ {
		wg.Add(1)
		go func() {
			defer wg.Done()
			for j := range jobs {
				if !j.vc.quickTry(j.o, timeoutS, seed) {
					if importantObl != nil && !importantObl(j.o) {
						continue
					}
					mu.Lock()
					hard = append(hard, j)
					mu.Unlock()
				}
			}
		}()
	}
	for _, vc := range vcs {
		for _, o := range vc.obls {
			jobs <- job{vc, o}
		}
	}
	close(jobs)
	wg.Wait()
	// phase 2: the rest is raced across all configurations, few at a time
	par := workers / len(solverConfigs(1, 0))
	if par < 1 {
		par = 1
	}
	jobs2 := make(chan job)
	for i := 0; i < par; i++ {
		wg.Add(1)
		go func() {
			defer wg.Done()
			for j := range jobs2 {
				j.vc.race(j.o, timeoutS, seed)
			}
		}()
	}
	for _, j := range hard {
		jobs2 <- j
	}
	close(jobs2)
	wg.Wait()
}

func (o *Obl) ok() bool {
	if o.ExpectSat {
		return o.Status != "unsat" && o.Status != "error"
	}
	return o.Status == "unsat"
}

func dumpQuery(vc *VC, o *Obl, dir string) string {
	os.MkdirAll(dir, 0o755)
	p := dir + "/" + sanitize(o.Name) + ".smt2"
	os.WriteFile(p, []byte(vc.queryText(o, false)), 0o644)
	return p
}

// proveNow tries to establish guard => goal from the lines emitted so far with a
// short solver call; used to prune infeasible alternatives while encoding
// (e.g. an append that provably fits its backing array).
func (vc *VC) proveNow(guard, goal string) bool {
	if guard == "false" {
		return true
	}
	key := fmt.Sprintf("%d|%s|%s", len(vc.lines), guard, goal)
	if r, ok := vc.proveCache[key]; ok {
		return r
	}
	o := &Obl{Name: "inline", Guard: guard, Goal: goal, At: len(vc.lines)}
	text := vc.queryText(o, false)
	ctx, cancel := context.WithTimeout(context.Background(), 3*time.Second)
	defer cancel()
	st, _, _ := runSolver(ctx, solverConfigs(2, 0)[0], text)
	if vc.proveCache == nil {
		vc.proveCache = map[string]bool{}
	}
	vc.proveCache[key] = st == "unsat"
	return st == "unsat"
}

// candidateModel drops every quantified assertion from a query (prelude axioms, heap invariants)
// and asks z3 for a model of the rest. The result is only a candidate: it is believed only after
// it satisfies the precondition and violates the clause on the real code (replay.go).
func candidateModel(query string) string {
	if query == "" {
		return ""
	}
	var b strings.Builder
	for _, f := range topLevelForms(query) {
		if strings.HasPrefix(f, "(assert") && (strings.Contains(f, "(forall ") || strings.Contains(f, "(exists ")) {
			continue
		}
		if strings.HasPrefix(f, "(check-sat") || strings.HasPrefix(f, "(get-") {
			continue
		}
		b.WriteString(f)
		b.WriteByte('\n')
	}
	b.WriteString("(check-sat)\n(get-model)\n")
	ctx, cancel := context.WithTimeout(context.Background(), 15*time.Second)
	defer cancel()
	c := solverConfigs(10, 0)[0]
	st, out, _ := runSolver(ctx, c, b.String())
	if st != "sat" {
		return ""
	}
	if len(out) > 20000 {
		out = out[:20000] + "\n...truncated"
	}
	return out
}

func topLevelForms(text string) []string {
	var forms []string
	depth, start := 0, -1
	for i := 0; i < len(text); i++ {
		switch c := text[i]; c {
		case ';':
			for i < len(text) && text[i] != '\n' {
				i++
			}
		case '|':
			i++
			for i < len(text) && text[i] != '|' {
				i++
			}
		case '"':
			i++
			for i < len(text) && text[i] != '"' {
				i++
			}
		case '(':
			if depth == 0 {
				start = i
			}
			depth++
		case ')':
			depth--
			if depth == 0 && start >= 0 {
				forms = append(forms, text[start:i+1])
				start = -1
			}
		}
	}
	return forms
}
