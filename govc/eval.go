package main

import (
	"fmt"
	"go/constant"
	"go/types"
	"strings"

	"golang.org/x/tools/go/ssa"
)

type Env struct {
	a       *Act
	vars    map[string]Val
	st      *State
	old     *State
	pkg     *ssa.Package
	fn      *ssa.Function
	resolve func(name string) (Val, bool)
	inOld   bool
	depth   int
	prev    *Env      // loop-iteration start (state and variable values at the loop header)
	loop    *loopInfo // the loop whose invariant is being evaluated (nil outside invariants)
	head    *Env      // start of the current iteration of the innermost enclosing loop
}

func (e *Env) fail(format string, args ...interface{}) {
	msg := fmt.Sprintf(format, args...)
	e.a.vc.specErrs = append(e.a.vc.specErrs, msg)
}

func (e *Env) with(name string, v Val) *Env {
	n := *e
	n.vars = map[string]Val{}
	for k, x := range e.vars {
		n.vars[k] = x
	}
	n.vars[name] = v
	return &n
}

func ghostSort(t string) Sort {
	switch t {
	case "asg", "assign", "assignment":
		return SortAsg
	case "int":
		return SortInt
	case "bool":
		return SortBool
	case "intarr":
		return SortIntArr
	case "slice":
		return SortSlice
	case "ref":
		return SortInt
	}
	return SortInt
}

func (e *Env) evalBool(x *SExpr) string {
	e.a.vc.inSpec++
	defer func() { e.a.vc.inSpec-- }()
	v := e.eval(x)
	if v.Sort != SortBool {
		e.fail("expected bool: %s (got %s)", x, v.Sort)
		return "true"
	}
	return v.Term
}

func (e *Env) evalInt(x *SExpr) string {
	e.a.vc.inSpec++
	defer func() { e.a.vc.inSpec-- }()
	v := e.eval(x)
	if v.Sort != SortInt {
		e.fail("expected int: %s (got %s)", x, v.Sort)
		return "0"
	}
	return v.Term
}

func (e *Env) lookupType(name string) types.Type {
	if e.pkg == nil {
		return nil
	}
	switch name {
	case "int":
		return types.Typ[types.Int]
	case "bool":
		return types.Typ[types.Bool]
	case "string":
		return types.Typ[types.String]
	case "int32":
		return types.Typ[types.Int32]
	case "float64":
		return types.Typ[types.Float64]
	case "float32":
		return types.Typ[types.Float32]
	}
	if strings.HasPrefix(name, "[]") {
		t := e.lookupType(name[2:])
		if t == nil {
			return nil
		}
		return types.NewSlice(t)
	}
	if strings.HasPrefix(name, "*") {
		t := e.lookupType(name[1:])
		if t == nil {
			return nil
		}
		return types.NewPointer(t)
	}
	if i := strings.Index(name, "."); i > 0 {
		for _, imp := range e.pkg.Pkg.Imports() {
			if imp.Name() == name[:i] {
				if o := imp.Scope().Lookup(name[i+1:]); o != nil {
					return o.Type()
				}
			}
		}
		return nil
	}
	if o := e.pkg.Pkg.Scope().Lookup(name); o != nil {
		if tn, ok := o.(*types.TypeName); ok {
			return tn.Type()
		}
	}
	return nil
}

func (e *Env) ident(name string) (Val, bool) {
	if v, ok := e.vars[name]; ok {
		return v, true
	}
	if e.inOld && e.a != nil {
		// inside old(): parameters denote their entry values; other locals keep their current value
		if v, ok := e.a.params[name]; ok {
			return v, true
		}
	}
	if e.resolve != nil {
		if v, ok := e.resolve(name); ok {
			return v, true
		}
	}
	if e.a != nil {
		if v, ok := e.a.root().ghosts[name]; ok {
			return v, true
		}
		if e.inOld {
			if v, ok := e.a.params[name]; ok {
				return v, true
			}
		}
	}
	// package-level constants and variables
	if e.pkg != nil {
		if o := e.pkg.Pkg.Scope().Lookup(name); o != nil {
			switch c := o.(type) {
			case *types.Const:
				return e.constVal(c), true
			case *types.Var:
				if g, ok := e.pkg.Members[name].(*ssa.Global); ok {
					t := g.Type().(*types.Pointer).Elem()
					l := &Loc{Kind: "global", Root: "G:" + e.pkg.Pkg.Name() + "." + name, Owner: t, T: t}
					return e.a.loadLoc(e.st, l), true
				}
			}
		}
	}
	return Val{}, false
}

func (e *Env) constVal(c *types.Const) Val {
	switch c.Val().Kind() {
	case constant.Int:
		s := c.Val().ExactString()
		if strings.HasPrefix(s, "-") {
			s = "(- " + s[1:] + ")"
		}
		return Val{Sort: SortInt, T: c.Type(), Term: s}
	case constant.Bool:
		return Val{Sort: SortBool, T: c.Type(), Term: c.Val().String()}
	case constant.String:
		return Val{Sort: SortStr, T: c.Type(), Term: e.a.vc.strConst(constant.StringVal(c.Val()))}
	}
	e.fail("unsupported constant %s", c.Name())
	return intVal("0")
}

func structField(t types.Type, name string) (int, bool) {
	st, ok := t.Underlying().(*types.Struct)
	if !ok {
		return 0, false
	}
	for i := 0; i < st.NumFields(); i++ {
		if st.Field(i).Name() == name {
			return i, true
		}
	}
	return 0, false
}

// evalLoc evaluates an expression denoting a memory location.
// shifted returns the environment in which the operand of old(...) / prev(...) is evaluated.
func (e *Env) shifted(x *SExpr) *Env {
	if strings.HasPrefix(x.Name, "entry") {
		// state and variable values when loop N was first entered
		n := int(x.Name[5] - '0')
		var li *loopInfo
		for _, l := range e.a.loops {
			if l.ord == n {
				li = l
			}
		}
		if li == nil || li.stEntry == nil {
			e.fail("%s(): loop %d has not been entered at this point", x.Name, n)
			return nil
		}
		ne := e.a.headerEnv(li, li.entryPhis, li.stEntry)
		for k, v := range e.vars {
			ne.vars[k] = v
		}
		return ne
	}
	if x.Name == "head" {
		if e.head == nil {
			// outside any loop: the start of the function
			if e.old == nil {
				e.fail("head() not available here")
				return nil
			}
			n := *e
			n.st = e.old
			n.inOld = true
			return &n
		}
		n := *e.head
		n.vars = map[string]Val{}
		for k, v := range e.head.vars {
			n.vars[k] = v
		}
		for k, v := range e.vars {
			n.vars[k] = v
		}
		return &n
	}
	if x.Name == "prev" {
		if e.prev == nil {
			e.fail("prev() is only available in body-end assertions")
			return nil
		}
		n := *e.prev
		n.vars = map[string]Val{}
		for k, v := range e.prev.vars {
			n.vars[k] = v
		}
		for k, v := range e.vars {
			n.vars[k] = v // quantifier-bound variables of the enclosing expression
		}
		return &n
	}
	if e.old == nil {
		e.fail("old() not available here")
		return nil
	}
	n := *e
	n.st = e.old
	n.inOld = true
	return &n
}

// evalRow evaluates a slice-valued argument of a prelude function to (row, offset, isnil),
// taking the row from the state the argument refers to (old/prev aware).
func (e *Env) evalRow(x *SExpr) (row, off, isnil string, ok bool) {
	if x.Kind == SOld {
		n := e.shifted(x)
		if n == nil {
			return "", "", "", false
		}
		return n.evalRow(x.X)
	}
	v := e.eval(x)
	if isNilVal(v) {
		return "((as const (Array Int Int)) 0)", "0", "true", true
	}
	if v.Sort != SortSlice || v.T == nil {
		return "", "", "", false
	}
	r, _ := e.a.rowTerm(e.st, v, elemTypeOf(v.T))
	return r, sOff(v.Term), app("=", sArr(v.Term), "0"), true
}

func (e *Env) evalLoc(x *SExpr) *Loc {
	switch x.Kind {
	case SSel:
		// a field of an embedded struct: s.wl.wlist
		if x.X.Kind == SSel || x.X.Kind == SIndex {
			if pl := e.evalLoc(x.X); pl != nil && isStruct(pl.T) {
				if i, ok := structField(pl.T, x.Name); ok {
					return pl.sub(i)
				}
			}
		}
		base := e.eval(x.X)
		if base.Comp {
			return nil
		}
		var l *Loc
		if base.Loc != nil {
			l = base.Loc
		} else if base.T != nil {
			if _, ok := base.T.Underlying().(*types.Pointer); ok {
				l = e.a.objLoc(base)
			}
		}
		if l == nil || !isStruct(l.T) {
			return nil
		}
		i, ok := structField(l.T, x.Name)
		if !ok {
			e.fail("no field %s in %s", x.Name, l.T)
			return nil
		}
		return l.sub(i)
	case SIndex:
		base := e.eval(x.X)
		if base.Sort == SortSlice && base.T != nil {
			el := elemTypeOf(base.T)
			return e.a.elemLoc(base, e.evalInt(x.Args[0]), el)
		}
	case SIdent:
		v, ok := e.ident(x.Name)
		if ok && (v.Loc != nil) {
			return v.Loc
		}
		if ok && v.T != nil {
			if _, isP := v.T.Underlying().(*types.Pointer); isP {
				return e.a.objLoc(v)
			}
		}
	}
	return nil
}

func (e *Env) eval(x *SExpr) Val {
	vc := e.a.vc
	switch x.Kind {
	case SInt:
		return intVal(x.Int)
	case SBool:
		return boolVal(x.Name)
	case SStr:
		return Val{Sort: SortStr, T: types.Typ[types.String], Term: vc.strConst(x.Name)}
	case SNil:
		return Val{Sort: SortInt, Term: "0", T: types.Typ[types.UntypedNil]}
	case SIdent:
		if v, ok := e.ident(x.Name); ok {
			if v.Loc != nil && !v.Comp {
				// pointer to embedded object: keep as is
				return v
			}
			return v
		}
		e.fail("unknown identifier %s", x.Name)
		return intVal("0")
	case SOld:
		n := e.shifted(x)
		if n == nil {
			return intVal("0")
		}
		return n.eval(x.X)
	case SSel:
		// package-qualified constant
		if x.X.Kind == SIdent && e.pkg != nil {
			if _, isVar := e.ident(x.X.Name); !isVar {
				for _, imp := range e.pkg.Pkg.Imports() {
					if imp.Name() == x.X.Name {
						if c, ok := imp.Scope().Lookup(x.Name).(*types.Const); ok {
							return e.constVal(c)
						}
						if gv, ok := imp.Scope().Lookup(x.Name).(*types.Var); ok {
							// package-level variable of an imported package (io.EOF)
							t := gv.Type()
							lv := e.a.loadLoc(e.st, &Loc{Kind: "global", Root: "G:" + imp.Name() + "." + gv.Name(), Owner: t, T: t})
							if types.IsInterface(t) && lv.Sort == SortInt {
								e.a.vc.assume("true", not(app("=", lv.Term, "0")))
								e.a.vc.assumed["sentinel error variables of external packages are non-nil and never reassigned: "+imp.Path()+"."+gv.Name()] = true
							}
							return lv
						}
					}
				}
			}
		}
		base := e.eval(x.X)
		if base.Comp {
			if tup, ok := base.T.(*types.Tuple); ok {
				for i := 0; i < tup.Len(); i++ {
					if tup.At(i).Name() == x.Name || fmt.Sprint(i) == x.Name {
						return base.Fields[i]
					}
				}
			}
			if i, ok := structField(base.T, x.Name); ok {
				return base.Fields[i]
			}
			e.fail("no field %s in %s", x.Name, base.T)
			return intVal("0")
		}
		l := e.evalLoc(x)
		if l == nil {
			e.fail("cannot select %s from %s", x.Name, x.X)
			return intVal("0")
		}
		if isStruct(l.T) {
			// embedded struct: represent as interior pointer so that further
			// selections and method calls work; also loadable as a value
			return e.a.loadLoc(e.st, l)
		}
		return e.a.loadLoc(e.st, l)
	case SIndex:
		base := e.eval(x.X)
		idx := e.eval(x.Args[0])
		switch {
		case base.Sort == SortSlice && base.T != nil:
			el := elemTypeOf(base.T)
			return e.a.loadLoc(e.st, e.a.elemLoc(base, idx.Term, el))
		case strings.HasPrefix(string(base.Sort), "(Array "):
			es := Sort(strings.TrimSuffix(strings.TrimPrefix(string(base.Sort), "(Array Int "), ")"))
			return Val{Sort: es, Term: sel(base.Term, idx.Term)}
		case base.Sort == SortStr:
			return Val{Sort: SortInt, T: types.Typ[types.Byte], Term: app("str-at", base.Term, idx.Term)}
		case base.Sort == SortInt && base.T != nil:
			if mt, ok := base.T.Underlying().(*types.Map); ok {
				names, sorts, ks := e.a.mapComps(mt)
				if len(names) == 1 {
					cs := mapValSort(ks, sorts[0])
					dc, ds := e.a.mapDomComp(mt)
					dom := sel(sel(vc.comp(e.st.mem, dc, ds), base.Term), idx.Term)
					raw := sel(sel(vc.comp(e.st.mem, names[0], cs), base.Term), idx.Term)
					return Val{Sort: sorts[0], T: mt.Elem(), Term: ite(dom, raw, zeroTerm(sorts[0], vc))}
				}
			}
		}
		e.fail("cannot index %s", x.X)
		return intVal("0")
	case SSlice:
		base := e.eval(x.X)
		if base.Sort != SortSlice {
			e.fail("cannot slice %s", x.X)
			return base
		}
		lo, hi := "0", sLen(base.Term)
		if x.Args[0] != nil {
			lo = e.evalInt(x.Args[0])
		}
		if x.Args[1] != nil {
			hi = e.evalInt(x.Args[1])
		}
		return Val{Sort: SortSlice, T: base.T, Term: mkSlice(sArr(base.Term), add(sOff(base.Term), lo), sub(hi, lo), sub(sCap(base.Term), lo))}
	case SUnary:
		v := e.eval(x.X)
		switch x.Op {
		case "!":
			return boolVal(not(v.Term))
		case "-":
			return Val{Sort: SortInt, T: v.T, Term: app("-", v.Term)}
		case "*":
			if v.T != nil {
				if _, isPtr := v.T.Underlying().(*types.Pointer); isPtr {
					return e.a.loadLoc(e.st, e.a.objLoc(v))
				}
			}
			e.fail("cannot dereference %s", x.X)
			return intVal("0")
		}
	case SBinary:
		return e.binary(x)
	case SQuant:
		return e.quant(x)
	case SCall:
		return e.call(x)
	}
	e.fail("cannot evaluate %s", x)
	return intVal("0")
}

func isNilVal(v Val) bool {
	if v.T == nil {
		return false
	}
	b, ok := v.T.(*types.Basic)
	return ok && b.Kind() == types.UntypedNil
}

func (e *Env) eqTerm(l, r Val) string {
	if l.Comp || r.Comp {
		fl, fr := flattenVal(l), flattenVal(r)
		if len(fl) != len(fr) {
			e.fail("comparison of differently shaped values")
			return "true"
		}
		var cs []string
		for i := range fl {
			cs = append(cs, e.eqTerm(fl[i], fr[i]))
		}
		return and(cs...)
	}
	if l.Sort == SortSlice && isNilVal(r) {
		return app("=", sArr(l.Term), "0")
	}
	if r.Sort == SortSlice && isNilVal(l) {
		return app("=", sArr(r.Term), "0")
	}
	if l.Loc != nil || r.Loc != nil {
		e.fail("comparison of interior pointers")
		return "true"
	}
	if l.Sort != r.Sort {
		e.fail("comparison of %s and %s", l.Sort, r.Sort)
		return "true"
	}
	return app("=", l.Term, r.Term)
}

func (e *Env) binary(x *SExpr) Val {
	switch x.Op {
	case "&&":
		return boolVal(and(e.evalBool(x.X), e.evalBool(x.Args[0])))
	case "||":
		return boolVal(or(e.evalBool(x.X), e.evalBool(x.Args[0])))
	case "==>":
		return boolVal(implies(e.evalBool(x.X), e.evalBool(x.Args[0])))
	case "<==>":
		return boolVal(app("=", e.evalBool(x.X), e.evalBool(x.Args[0])))
	}
	l, r := e.eval(x.X), e.eval(x.Args[0])
	switch x.Op {
	case "==":
		return boolVal(e.eqTerm(l, r))
	case "!=":
		return boolVal(not(e.eqTerm(l, r)))
	}
	if l.Sort != SortInt || r.Sort != SortInt {
		e.fail("arithmetic on non-integers in %s (%s, %s)", x, l.Sort, r.Sort)
		return intVal("0")
	}
	switch x.Op {
	case "<", "<=", ">", ">=":
		return boolVal(app(x.Op, l.Term, r.Term))
	case "+", "-", "*":
		return Val{Sort: SortInt, T: l.T, Term: app(x.Op, l.Term, r.Term)}
	case "/":
		return Val{Sort: SortInt, T: l.T, Term: app("tdiv", l.Term, r.Term)}
	case "%":
		return Val{Sort: SortInt, T: l.T, Term: app("tmod", l.Term, r.Term)}
	}
	e.fail("unknown operator %s", x.Op)
	return intVal("0")
}

func (e *Env) quant(x *SExpr) Val {
	vc := e.a.vc
	if x.Name == "forallobj" {
		t := e.lookupType(x.Vars[1])
		if t == nil {
			e.fail("forallobj: unknown type %s", x.Vars[1])
			return boolVal("true")
		}
		nm := vc.fresh("qobj_" + x.Vars[0])
		n := e.with(x.Vars[0], Val{Sort: SortInt, T: types.NewPointer(t), Term: nm})
		vc.inQuant++
		body := n.evalBool(x.Args[0])
		vc.inQuant--
		q := fmt.Sprintf("(forall ((%s Int)) %s)", nm, implies(app("<", "0", nm), body))
		if vc.inQuant == 0 {
			q = addPatterns(q)
		}
		return boolVal(q)
	}
	if x.Name == "forallasg" {
		nm := vc.fresh("qasg_" + x.Vars[0])
		n := e.with(x.Vars[0], Val{Sort: SortAsg, Term: nm})
		vc.inQuant++
		body := n.evalBool(x.Args[0])
		vc.inQuant--
		if vc.inQuant == 0 {
			body = addPatterns(body)
		}
		return boolVal(fmt.Sprintf("(forall ((%s %s)) (! (=> (asgmark %s) %s) :pattern ((asgmark %s))))", nm, SortAsg, nm, body, nm))
	}
	n := e
	var names []string
	for _, v := range x.Vars {
		nm := vc.fresh("q_" + v)
		names = append(names, nm)
		n = n.with(v, Val{Sort: SortInt, T: types.Typ[types.Int], Term: nm})
	}
	var guard, body string
	vc.inQuant++
	defer func() { vc.inQuant-- }()
	if len(x.Args) == 3 {
		lo, hi := n.evalInt(x.Args[0]), n.evalInt(x.Args[1])
		guard = and(app("<=", lo, names[0]), app("<", names[0], hi))
		body = n.evalBool(x.Args[2])
	} else {
		guard = "true"
		body = n.evalBool(x.Args[0])
	}
	var inner string
	if x.Name == "forall" {
		inner = implies(guard, body)
	} else {
		inner = and(guard, body)
	}
	q := buildQuant(x.Name, names, inner)
	if vc.inQuant == 1 {
		q = addPatterns(q)
	}
	return boolVal(q)
}

// ---------------------------------------------------------------- calls

func (e *Env) call(x *SExpr) Val {
	vc := e.a.vc
	if x.X == nil {
		// builtins
		switch x.Name {
		case "len":
			v := e.eval(x.Args[0])
			switch v.Sort {
			case SortSlice:
				return Val{Sort: SortInt, T: types.Typ[types.Int], Term: sLen(v.Term)}
			case SortStr:
				return Val{Sort: SortInt, T: types.Typ[types.Int], Term: app("str-len", v.Term)}
			}
			if v.T != nil {
				if _, ok := v.T.Underlying().(*types.Map); ok {
					return Val{Sort: SortInt, T: types.Typ[types.Int], Term: sel(vc.comp(e.st.mem, "ghost:map.len", arrSort(SortInt)), v.Term)}
				}
			}
			e.fail("len of %s", x.Args[0])
			return intVal("0")
		case "cap":
			v := e.eval(x.Args[0])
			return Val{Sort: SortInt, T: types.Typ[types.Int], Term: sCap(v.Term)}
		case "arr":
			v := e.eval(x.Args[0])
			return intVal(sArr(v.Term))
		case "off":
			v := e.eval(x.Args[0])
			return intVal(sOff(v.Term))
		case "ite":
			c := e.evalBool(x.Args[0])
			t, f := e.eval(x.Args[1]), e.eval(x.Args[2])
			return Val{Sort: t.Sort, T: t.T, Term: ite(c, t.Term, f.Term)}
		case "absi":
			v := e.evalInt(x.Args[0])
			return intVal(app("absi", v))
		case "mini", "maxi":
			l, r := e.evalInt(x.Args[0]), e.evalInt(x.Args[1])
			op := "<="
			if x.Name == "maxi" {
				op = ">="
			}
			return intVal(ite(app(op, l, r), l, r))
		case "div", "mod":
			l, r := e.evalInt(x.Args[0]), e.evalInt(x.Args[1])
			return intVal(app(x.Name, l, r))
		case "b2i":
			return intVal(ite(e.evalBool(x.Args[0]), "1", "0"))
		case "sameArray":
			l, r := e.eval(x.Args[0]), e.eval(x.Args[1])
			return boolVal(and(app("=", sArr(l.Term), sArr(r.Term)), app("=", sOff(l.Term), sOff(r.Term))))
		case "aliased":
			l, r := e.eval(x.Args[0]), e.eval(x.Args[1])
			return boolVal(and(app("=", sArr(l.Term), sArr(r.Term)), not(app("=", sArr(l.Term), "0"))))
		case "fresh":
			// allocated after the old state
			v := e.eval(x.Args[0])
			t := v.Term
			if v.Sort == SortSlice {
				t = sArr(v.Term)
			}
			if e.old == nil {
				e.fail("fresh() needs an old state")
				return boolVal("true")
			}
			return boolVal(app(">", t, e.a.alloc(e.old)))
		case "grown":
			// the slice still uses the backing array it had on entry, or one allocated since
			v := e.eval(x.Args[0])
			if e.loop != nil && e.loop.stEntry != nil {
				// inside a loop invariant: same backing array as on loop entry, or allocated during the loop
				ne := e.a.headerEnv(e.loop, e.loop.entryPhis, e.loop.stEntry)
				ne.loop = nil
				ov := ne.eval(x.Args[0])
				return boolVal(or(app("=", sArr(v.Term), sArr(ov.Term)), app(">", sArr(v.Term), e.loop.allocLE)))
			}
			n := e.shifted(&SExpr{Kind: SOld, Name: "old"})
			if n == nil {
				return boolVal("true")
			}
			ov := n.eval(x.Args[0])
			return boolVal(or(app("=", sArr(v.Term), sArr(ov.Term)), app(">", sArr(v.Term), e.a.alloc(e.old))))
		case "allocated":
			v := e.eval(x.Args[0])
			t := v.Term
			if v.Sort == SortSlice {
				t = sArr(v.Term)
			}
			return boolVal(app("<=", t, e.a.alloc(e.st)))
		case "curalloc":
			return intVal(e.a.alloc(e.st))
		case "nsent", "sendalloc":
			v := e.eval(x.Args[0])
			comp := "ghost:chan.nsent"
			if x.Name == "sendalloc" {
				comp = "ghost:chan.salloc"
			}
			return intVal(sel(vc.comp(e.st.mem, comp, arrSort(SortInt)), v.Term))
		case "lastsent":
			v := e.eval(x.Args[0])
			return e.a.lastSent(e.st, v)
		case "closed":
			v := e.eval(x.Args[0])
			return boolVal(sel(vc.comp(e.st.mem, "ghost:chan.closed", arrSort(SortBool)), v.Term))
		case "update":
			arr := e.eval(x.Args[0])
			i, v := e.eval(x.Args[1]), e.eval(x.Args[2])
			return Val{Sort: arr.Sort, Term: sto(arr.Term, i.Term, v.Term)}
		}
		if d := vc.eng.contracts.LookupDefine(pkgNameOf(e.pkg), x.Name); d != nil {
			return e.expandDefine(d, x)
		}
		if sig, ok := vc.eng.prelude.sigs[x.Name]; ok {
			return e.preludeCall(sig, x)
		}
		if e.pkg != nil {
			if fn := e.pkg.Func(x.Name); fn != nil && fn.TypeParams() == nil {
				var args []Val
				for _, g := range x.Args {
					args = append(args, e.eval(g))
				}
				return e.goCall(fn, args, x)
			}
		}
		e.fail("unknown specification function %s", x.Name)
		return intVal("0")
	}
	// method call on a value
	recv := e.eval(x.X)
	if recv.T == nil {
		e.fail("method call on untyped value %s", x.X)
		return intVal("0")
	}
	// interior pointer to embedded struct: need address, try evalLoc
	prog := e.a.fn.Prog
	try := []types.Type{recv.T}
	if _, isPtr := recv.T.Underlying().(*types.Pointer); !isPtr {
		try = append(try, types.NewPointer(recv.T))
	}
	for _, t := range try {
		ms := prog.MethodSets.MethodSet(t)
		var pk *types.Package
		if e.pkg != nil {
			pk = e.pkg.Pkg
		}
		selm := ms.Lookup(pk, x.Name)
		if selm == nil {
			continue
		}
		fn := prog.MethodValue(selm)
		if fn == nil {
			continue
		}
		rv := recv
		if t != recv.T {
			// need &recv: only possible when recv came from a location
			if l := e.evalLoc(x.X); l != nil {
				rv = Val{T: t, Loc: l}
			} else {
				e.fail("cannot take address of %s for method %s", x.X, x.Name)
				return intVal("0")
			}
		}
		args := []Val{rv}
		for _, g := range x.Args {
			args = append(args, e.eval(g))
		}
		return e.goCall(fn, args, x)
	}
	e.fail("unknown method %s on %s", x.Name, recv.T)
	return intVal("0")
}

func pkgNameOf(p *ssa.Package) string {
	if p == nil {
		return ""
	}
	return p.Pkg.Name()
}

func (e *Env) expandDefine(d *Define, x *SExpr) Val {
	if len(x.Args) != len(d.Params) {
		e.fail("%s expects %d arguments", d.Name, len(d.Params))
		return boolVal("true")
	}
	if e.depth > 20 {
		e.fail("define expansion too deep (recursive define %s?)", d.Name)
		return boolVal("true")
	}
	n := *e
	n.vars = map[string]Val{}
	n.resolve = nil
	n.depth = e.depth + 1
	for i, p := range d.Params {
		n.vars[p.Name] = e.eval(x.Args[i])
	}
	// defines evaluate in the current state; old() inside a define refers to the caller's old state
	return n.eval(d.Body)
}

func (e *Env) preludeCall(sig *preludeSig, x *SExpr) Val {
	if len(x.Args) != len(sig.params) {
		e.fail("%s expects %d arguments, got %d", sig.name, len(sig.params), len(x.Args))
		return Val{Sort: sig.ret, Term: zeroTerm(sig.ret, e.a.vc)}
	}
	var ts []string
	for i, k := range sig.params {
		switch k {
		case "row", "rowz":
			row, off, isnil, ok := e.evalRow(x.Args[i])
			if !ok {
				e.fail("%s: argument %d must be a slice", sig.name, i+1)
				row, off, isnil = "((as const (Array Int Int)) 0)", "0", "true"
			}
			ts = append(ts, row, off)
			if k == "rowz" {
				ts = append(ts, isnil)
			}
		default:
			v := e.eval(x.Args[i])
			ts = append(ts, v.Term)
		}
	}
	return Val{Sort: sig.ret, Term: app(sig.name, ts...), T: sig.retT}
}

// goCall evaluates a (loop-free) Go function of the repository as a specification function.
func (e *Env) goCall(fn *ssa.Function, args []Val, x *SExpr) Val {
	if len(fn.Blocks) == 0 {
		e.fail("specification call to external function %s", fn)
		return intVal("0")
	}
	if e.depth > 8 {
		e.fail("specification call nesting too deep at %s", fn)
		return intVal("0")
	}
	a := e.a
	child := &Act{
		vc: a.vc, fn: fn, mode: modeSpec, depth: a.depth + 1,
		vals: map[ssa.Value]Val{}, params: map[string]Val{}, ghosts: a.ghosts,
		in: map[*ssa.BasicBlock]*State{}, out: map[*ssa.BasicBlock]*State{}, edge: map[[2]int]string{},
		callCnt: map[string]int{}, dry: true, parentAct: a,
	}
	for i, p := range fn.Params {
		if i < len(args) {
			child.vals[p] = args[i]
			child.params[p.Name()] = args[i]
		}
	}
	child.entry = &State{mem: e.st.mem.clone(), reach: "true"}
	child.run()
	for _, u := range child.unsupported {
		e.fail("in specification call %s: %s", fn.Name(), u)
	}
	if len(child.returns) == 0 || fn.Signature.Results().Len() == 0 {
		e.fail("specification call %s has no result", fn.Name())
		return intVal("0")
	}
	var conds []string
	for _, r := range child.returns {
		conds = append(conds, r.guard)
	}
	nres := fn.Signature.Results().Len()
	var fields []Val
	for i := 0; i < nres; i++ {
		var vs []Val
		for _, r := range child.returns {
			vs = append(vs, r.vals[i])
		}
		fields = append(fields, a.mergeVals(conds, vs, fn.Signature.Results().At(i).Type(), "spec_"+sanitize(fn.Name())))
	}
	if nres == 1 {
		return fields[0]
	}
	return Val{Comp: true, T: fn.Signature.Results(), Fields: fields}
}
