package main

// Counterexample replay for functions whose inputs are scalars: when a solver refutes an
// obligation of such a function it returns a model of the parameters; the model is turned
// into a Go test that calls the real function (injected with `go test -overlay`, nothing is
// written to the repository) and evaluates the violated contract clause, or observes the panic.

import (
	"encoding/json"
	"fmt"
	"go/types"
	"os"
	"os/exec"
	"path/filepath"
	"regexp"
	"strings"

	"golang.org/x/tools/go/ssa"
)

func scalarType(t types.Type) bool {
	b, ok := t.Underlying().(*types.Basic)
	return ok && (b.Info()&types.IsInteger != 0 || b.Info()&types.IsBoolean != 0)
}

var modelRe = regexp.MustCompile(`\(define-fun \|?(p_[A-Za-z0-9_]+)!\d+\|? \(\) (Int|Bool)\s+([^\n]+)\)`)

func parseModelParams(model string) map[string]string {
	out := map[string]string{}
	flat := strings.ReplaceAll(model, "\n   ", " ")
	flat = strings.ReplaceAll(flat, "\n    ", " ")
	for _, m := range modelRe.FindAllStringSubmatch(flat, -1) {
		v := strings.TrimSpace(m[3])
		v = strings.TrimSuffix(v, ")")
		if strings.HasPrefix(v, "(- ") {
			v = "-" + strings.TrimSuffix(strings.TrimPrefix(v, "(- "), ")")
		}
		out[strings.TrimPrefix(m[1], "p_")] = strings.TrimSpace(v)
	}
	return out
}

// goExpr translates a (quantifier-free, scalar) specification expression to Go over int64/bool.
func goExpr(x *SExpr, names map[string]string) (string, bool) {
	switch x.Kind {
	case SInt:
		return "int64(" + x.Int + ")", true
	case SBool:
		return x.Name, true
	case SIdent:
		if g, ok := names[x.Name]; ok {
			return g, true
		}
		return "", false
	case SUnary:
		a, ok := goExpr(x.X, names)
		return "(" + x.Op + a + ")", ok
	case SBinary:
		a, ok1 := goExpr(x.X, names)
		b, ok2 := goExpr(x.Args[0], names)
		if !ok1 || !ok2 {
			return "", false
		}
		switch x.Op {
		case "==>":
			return "(!(" + a + ") || (" + b + "))", true
		case "<==>":
			return "((" + a + ") == (" + b + "))", true
		}
		return "(" + a + " " + x.Op + " " + b + ")", true
	case SCall:
		if x.X == nil && x.Name == "absi" && len(x.Args) == 1 {
			a, ok := goExpr(x.Args[0], names)
			return "govcAbs(" + a + ")", ok
		}
		if x.X == nil && x.Name == "ite" && len(x.Args) == 3 {
			c, ok1 := goExpr(x.Args[0], names)
			a, ok2 := goExpr(x.Args[1], names)
			b, ok3 := goExpr(x.Args[2], names)
			return "govcIte(" + c + ", " + a + ", " + b + ")", ok1 && ok2 && ok3
		}
	}
	return "", false
}

func init() {
	tryReplay = func(eng *Engine, prop, fnKey, obl, model string) *Cex {
		fn := eng.Func(fnKey)
		if fn == nil || model == "" {
			return nil
		}
		ct := eng.contracts.Lookup(pkgName(fn), relName(fn))
		sig := fn.Signature
		var params []*ssa.Parameter
		for _, p := range fn.Params {
			if !scalarType(p.Type()) {
				return nil
			}
			params = append(params, p)
		}
		if sig.Results().Len() > 1 {
			return nil
		}
		vals := parseModelParams(model)
		input := map[string]string{}
		names := map[string]string{}
		var argExprs []string
		for _, p := range params {
			v, ok := vals[sanitize(p.Name())]
			if !ok {
				v = "0"
				if b, isB := p.Type().Underlying().(*types.Basic); isB && b.Info()&types.IsBoolean != 0 {
					v = "false"
				}
			}
			input[p.Name()] = v
			tn := types.TypeString(p.Type(), func(*types.Package) string { return "" })
			argExprs = append(argExprs, fmt.Sprintf("%s(%s)", tn, v))
			if v == "true" || v == "false" {
				names[p.Name()] = v
				argExprs[len(argExprs)-1] = v
			} else {
				names[p.Name()] = "int64(" + v + ")"
			}
		}
		// the call
		var call string
		if sig.Recv() != nil {
			call = fmt.Sprintf("%s.%s(%s)", argExprs[0], fn.Name(), strings.Join(argExprs[1:], ", "))
		} else {
			call = fmt.Sprintf("%s(%s)", fn.Name(), strings.Join(argExprs, ", "))
		}
		// the violated clause
		check := "true"
		clauseSrc := ""
		if i := strings.Index(obl, "#post:"); i >= 0 && ct != nil {
			cn := suffixRe.ReplaceAllString(obl[i+6:], "")
			for _, en := range ct.Ensures {
				if en.Name == cn {
					rn := map[string]string{}
					for k, v := range names {
						rn[k] = v
					}
					if sig.Results().Len() == 1 {
						if scalarType(sig.Results().At(0).Type()) {
							if b, isB := sig.Results().At(0).Type().Underlying().(*types.Basic); isB && b.Info()&types.IsBoolean != 0 {
								rn["result"] = "got"
							} else {
								rn["result"] = "int64(got)"
							}
						}
					}
					if g, ok := goExpr(en.Expr, rn); ok {
						check = g
						clauseSrc = en.Src
					}
				}
			}
			if clauseSrc == "" {
				return nil
			}
		}
		// the precondition must hold for the candidate input, otherwise it proves nothing
		pre := "true"
		if ct != nil {
			for _, r := range ct.Requires {
				g, ok := goExpr(r.Expr, names)
				if !ok {
					return nil
				}
				pre += " && " + g
			}
		}
		gotDecl := "got := " + call
		if sig.Results().Len() == 0 {
			gotDecl = call
			check = "true"
		}
		test := fmt.Sprintf(`package %s

import "testing"

func govcAbs(x int64) int64 {
	if x < 0 {
		return -x
	}
	return x
}

func govcIte(c bool, a, b int64) int64 {
	if c {
		return a
	}
	return b
}

// counterexample found by the verifier for %s
func TestGovcReplay(t *testing.T) {
	defer func() {
		if r := recover(); r != nil {
			t.Fatalf("REPLAY-CONFIRMED panic: %%v", r)
		}
	}()
	if !(%s) {
		t.Skip("REPLAY-INVALID: the candidate input does not satisfy the precondition")
	}
	%s
	_ = got
	if !(%s) {
		t.Fatalf("REPLAY-CONFIRMED clause violated: %s (inputs %s)")
	}
}
`, fn.Pkg.Pkg.Name(), obl, pre, gotDecl, check, strings.ReplaceAll(clauseSrc, `"`, `'`), strings.ReplaceAll(fmt.Sprint(input), `"`, `'`))
		if sig.Results().Len() == 0 {
			test = strings.Replace(test, "\t_ = got\n", "", 1)
		}
		dir, err := os.MkdirTemp("", "govc-replay")
		if err != nil {
			return nil
		}
		defer os.RemoveAll(dir)
		tf := filepath.Join(dir, "zz_govc_replay_test.go")
		os.WriteFile(tf, []byte(test), 0o644)
		pkgDir := filepath.Join(eng.repo, strings.TrimPrefix(strings.TrimPrefix(fn.Pkg.Pkg.Path(), "github.com/crillab/gophersat"), "/"))
		ov, _ := json.Marshal(map[string]map[string]string{"Replace": {filepath.Join(pkgDir, "zz_govc_replay_test.go"): tf}})
		of := filepath.Join(dir, "ov.json")
		os.WriteFile(of, ov, 0o644)
		cmd := exec.Command("go", "test", "-overlay", of, "-vet=off", "-count=1", "-timeout", "60s", "-run", "TestGovcReplay", ".")
		cmd.Dir = pkgDir
		cmd.Env = append(os.Environ(), "GOFLAGS=-mod=mod", "GOPROXY=off", "GOSUMDB=off", "GOTOOLCHAIN=local")
		out, _ := cmd.CombinedOutput()
		return &Cex{Input: input, Test: test, Output: trimOut(string(out)), Confirmed: strings.Contains(string(out), "REPLAY-CONFIRMED")}
	}
}
