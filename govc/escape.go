package main

import (
	"golang.org/x/tools/go/ssa"
)

// A freshly allocated array/object is "private" when no reference to it can have been
// stored anywhere a callee could find it: its SSA value (and every value derived from it by
// slicing, phi, conversion) is only indexed, measured, copied, or handed to sort.Sort.
// Private allocations survive the component-wide havoc ("modifies all []T") of contract
// calls: the callee cannot reach them.

type escapeInfo struct {
	fn      *ssa.Function
	private map[ssa.Value]bool
	done    map[ssa.Value]bool
}

func newEscapeInfo(fn *ssa.Function) *escapeInfo {
	return &escapeInfo{fn: fn, private: map[ssa.Value]bool{}, done: map[ssa.Value]bool{}}
}

func (e *escapeInfo) isPrivate(v ssa.Value) bool {
	if r, ok := e.private[v]; ok && e.done[v] {
		return r
	}
	seen := map[ssa.Value]bool{}
	r := e.check(v, seen)
	e.private[v] = r
	e.done[v] = true
	return r
}

func onlySortUses(v ssa.Value) bool {
	refs := v.Referrers()
	if refs == nil {
		return false
	}
	for _, u := range *refs {
		c, ok := u.(*ssa.Call)
		if !ok {
			if _, isDbg := u.(*ssa.DebugRef); isDbg {
				continue
			}
			return false
		}
		callee := c.Call.StaticCallee()
		if callee == nil || callee.Pkg == nil || callee.Pkg.Pkg.Path() != "sort" || callee.Name() != "Sort" {
			return false
		}
	}
	return true
}

func (e *escapeInfo) check(v ssa.Value, seen map[ssa.Value]bool) bool {
	if seen[v] {
		return true
	}
	seen[v] = true
	refs := v.Referrers()
	if refs == nil {
		return false
	}
	for _, u := range *refs {
		switch x := u.(type) {
		case *ssa.DebugRef:
		case *ssa.IndexAddr:
			// element address: used for loads/stores of elements; the address itself must not escape
			if x.X == v && !e.addrBenign(x, seen) {
				return false
			}
		case *ssa.Index:
		case *ssa.Slice, *ssa.Phi, *ssa.ChangeType, *ssa.Convert:
			if !e.check(x.(ssa.Value), seen) {
				return false
			}
		case *ssa.FieldAddr:
			// v is a pointer to a local struct: field addresses are written/read directly
			if x.X == v && !e.addrBenign(x, seen) {
				return false
			}
		case *ssa.UnOp:
			// load through v (v is an address): the loaded value carries the stored references
			if !e.check(x, seen) {
				return false
			}
		case *ssa.Store:
			if x.Val == v {
				// storing the reference: fine only into a private local container
				if !e.privateContainer(x.Addr, seen) {
					return false
				}
			}
		case *ssa.MakeInterface:
			if !onlySortUses(x) {
				return false
			}
		case *ssa.Call:
			if b, ok := x.Call.Value.(*ssa.Builtin); ok {
				switch b.Name() {
				case "len", "cap", "copy":
				case "append":
					if len(x.Call.Args) > 0 && x.Call.Args[0] == v {
						if !e.check(x, seen) {
							return false
						}
					}
				default:
					return false
				}
				continue
			}
			return false
		case *ssa.Extract, *ssa.Field:
			if !e.check(x.(ssa.Value), seen) {
				return false
			}
		default:
			return false
		}
	}
	return true
}

// addrBenign: an element/field address is only used for direct loads and stores.
func (e *escapeInfo) addrBenign(addr ssa.Value, seen map[ssa.Value]bool) bool {
	refs := addr.Referrers()
	if refs == nil {
		return true
	}
	for _, u := range *refs {
		switch x := u.(type) {
		case *ssa.DebugRef:
		case *ssa.Store:
			if x.Val == addr {
				return false
			}
		case *ssa.UnOp:
			// loaded element: elements of a private array may themselves be references; they
			// were put there by this function, so they are covered by their own analysis
		case *ssa.FieldAddr, *ssa.IndexAddr:
			if !e.addrBenign(x.(ssa.Value), seen) {
				return false
			}
		default:
			return false
		}
	}
	return true
}

// privateContainer: addr points into a local allocation of this function that is itself private.
func (e *escapeInfo) privateContainer(addr ssa.Value, seen map[ssa.Value]bool) bool {
	switch x := addr.(type) {
	case *ssa.Alloc:
		return e.check(x, seen)
	case *ssa.FieldAddr:
		return e.privateContainer(x.X, seen)
	case *ssa.IndexAddr:
		return e.privateContainer(x.X, seen)
	}
	return false
}
