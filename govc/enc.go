package main

import (
	"fmt"
	"go/ast"
	"go/token"
	"go/types"
	"os"
	"sort"
	"strings"

	"golang.org/x/tools/go/ssa"
)

const (
	modeVerify = iota
	modeInline // code-level inlining: obligations are generated
	modeSpec   // specification-level inlining: pure, no obligations
)

type State struct {
	mem   *Mem
	reach string
}

func (s *State) clone() *State { return &State{mem: s.mem.clone(), reach: s.reach} }

type modEntry struct {
	Comp string // exact component or prefix ending in ':' or '.'
	Ref  string
	All  bool
	Src  string
	Site ssa.Value // allocation site (fresh allocations of the function being verified)
}

func (e modEntry) matches(comp string) bool { return e.Comp == comp }

type loopInfo struct {
	header    *ssa.BasicBlock
	blocks    map[*ssa.BasicBlock]bool
	ord       int // 1-based source order
	synBlocks map[*ssa.BasicBlock]bool
	spec      *LoopSpec
	items     []modEntry
	allocLE   string
	threshold string // objects allocated after this point may be written in the loop without declaration
	touched   []string
	parent    *loopInfo
	// state at header after havoc (for decreases)
	phiHavoc  map[*ssa.Phi]Val
	variant0  string
	stHeader  *State
	stEntry   *State
	entryPhis map[*ssa.Phi]Val
}

type retInfo struct {
	guard string
	st    *State
	vals  []Val
	blk   *ssa.BasicBlock
}

type deferInfo struct {
	instr *ssa.Defer
	args  []Val
	guard string
	blk   *ssa.BasicBlock
}

type Act struct {
	vc          *VC
	fn          *ssa.Function
	mode        int
	depth       int
	contract    *Contract
	vals        map[ssa.Value]Val
	params      map[string]Val
	ghosts      map[string]Val
	entry       *State
	in          map[*ssa.BasicBlock]*State
	out         map[*ssa.BasicBlock]*State
	edge        map[[2]int]string // (from index, to index) -> condition (includes reach(from))
	returns     []retInfo
	defers      []deferInfo
	loops       map[*ssa.BasicBlock]*loopInfo // by header
	inLoop      map[*ssa.BasicBlock]*loopInfo // innermost loop of block
	order       []*ssa.BasicBlock
	funcMods    []modEntry
	hasMods     bool
	allocE      string
	label       string // prefix for obligation labels when inlined
	callCnt     map[string]int
	callOrd     map[ssa.Instruction]int // k-th call of the same callee in source order
	dry         bool
	cur         *State
	curBlk      *ssa.BasicBlock
	curIdx      int
	unsupported []string
	parentAct   *Act
	escape      *escapeInfo
	curSite     ssa.Value
	freshAllocs []modEntry // objects allocated by this activation tree (root only)
	outerLoop   *loopInfo
	inlCnt      map[string]int
	onSend      func(a *Act, x *ssa.Send, ch, v Val)
	onRecv      func(a *Act, x *ssa.UnOp, ch, v Val)
}

func (a *Act) unsup(format string, args ...interface{}) {
	msg := fmt.Sprintf(format, args...)
	for _, u := range a.unsupported {
		if u == msg {
			return
		}
	}
	a.unsupported = append(a.unsupported, msg)
	a.vc.note("unsupported in " + relName(a.fn) + ": " + msg)
}

func (a *Act) posOf(p token.Pos) string {
	if !p.IsValid() {
		return ""
	}
	pp := a.fn.Prog.Fset.Position(p)
	return fmt.Sprintf("%s:%d", shortFile(pp.Filename), pp.Line)
}

func shortFile(f string) string {
	if i := strings.Index(f, "/repo/"); i >= 0 {
		return f[i+6:]
	}
	return f
}

// ---------------------------------------------------------------- CFG analysis

func (a *Act) analyse() {
	fn := a.fn
	// number the calls of each callee in source order (labels f#k in contracts)
	a.callOrd = map[ssa.Instruction]int{}
	byKey := map[string][]ssa.Instruction{}
	for _, b := range fn.Blocks {
		for _, in := range b.Instrs {
			ci, ok := in.(ssa.CallInstruction)
			if !ok {
				continue
			}
			if callee := ci.Common().StaticCallee(); callee != nil {
				k := relName(callee)
				byKey[k] = append(byKey[k], in)
			}
		}
	}
	for _, ins := range byKey {
		sort.SliceStable(ins, func(i, j int) bool { return ins[i].Pos() < ins[j].Pos() })
		for i, in := range ins {
			a.callOrd[in] = i + 1
		}
	}
	a.loops = map[*ssa.BasicBlock]*loopInfo{}
	a.inLoop = map[*ssa.BasicBlock]*loopInfo{}
	// back edges: u -> h with h dominating u
	for _, u := range fn.Blocks {
		for _, h := range u.Succs {
			if h.Dominates(u) {
				li := a.loops[h]
				if li == nil {
					li = &loopInfo{header: h, blocks: map[*ssa.BasicBlock]bool{h: true}}
					a.loops[h] = li
				}
				// natural loop: nodes reaching u without passing h
				stack := []*ssa.BasicBlock{u}
				for len(stack) > 0 {
					x := stack[len(stack)-1]
					stack = stack[:len(stack)-1]
					if li.blocks[x] {
						continue
					}
					li.blocks[x] = true
					for _, p := range x.Preds {
						stack = append(stack, p)
					}
				}
			}
		}
	}
	// source order of loops: by position of the header's first position-bearing instruction
	var hs []*ssa.BasicBlock
	for h := range a.loops {
		hs = append(hs, h)
	}
	pos := func(b *ssa.BasicBlock) token.Pos {
		best := token.NoPos
		// use the loop statement position: smallest valid pos among instrs of header and its body
		for blk := range a.loops[b].blocks {
			for _, in := range blk.Instrs {
				switch in.(type) {
				case *ssa.Phi, *ssa.DebugRef:
					continue // carry the position of the variable's declaration, not of the loop
				}
				if p := in.Pos(); p.IsValid() && (best == token.NoPos || p < best) {
					best = p
				}
			}
		}
		return best
	}
	sort.Slice(hs, func(i, j int) bool {
		pi, pj := pos(hs[i]), pos(hs[j])
		if pi != pj {
			return pi < pj
		}
		return hs[i].Index < hs[j].Index
	})
	for i, h := range hs {
		if debugReachAll && a.mode == modeVerify {
			fmt.Printf("   loop %d of %s: header b%d at %s\n", i+1, relName(a.fn), h.Index, a.posOf(pos(h)))
		}
		a.loops[h].ord = i + 1
		if a.contract != nil {
			a.loops[h].spec = a.contract.Loops[i+1]
		}
	}
	// innermost loop per block, parents
	for _, b := range fn.Blocks {
		var best *loopInfo
		for _, li := range a.loops {
			if li.blocks[b] && (best == nil || len(li.blocks) < len(best.blocks)) {
				best = li
			}
		}
		a.inLoop[b] = best
	}
	for _, li := range a.loops {
		var best *loopInfo
		for _, lj := range a.loops {
			if lj != li && lj.blocks[li.header] && (best == nil || len(lj.blocks) < len(best.blocks)) {
				best = lj
			}
		}
		li.parent = best
		if best == nil {
			li.parent = a.outerLoop
		}
	}
	// topological order ignoring back edges (reverse postorder)
	seen := map[*ssa.BasicBlock]bool{}
	var post []*ssa.BasicBlock
	var dfs func(b *ssa.BasicBlock)
	dfs = func(b *ssa.BasicBlock) {
		seen[b] = true
		for _, s := range b.Succs {
			if s.Dominates(b) { // back edge
				continue
			}
			if !seen[s] {
				dfs(s)
			}
		}
		post = append(post, b)
	}
	if len(fn.Blocks) > 0 {
		dfs(fn.Blocks[0])
	}
	for i := len(post) - 1; i >= 0; i-- {
		a.order = append(a.order, post[i])
	}
	// fn.Recover (present whenever the function defers) is only entered after a
	// recovered panic; panics are proved unreachable, so the block is ignored.
}

var debugReachAll bool

// elementwiseFrame states loop frames of nested heaps element by element instead of row by row
var elementwiseFrame = os.Getenv("GOVC_ELEMFRAME") == "1"

func firstPos(b *ssa.BasicBlock) token.Pos {
	for _, in := range b.Instrs {
		if p := in.Pos(); p.IsValid() {
			return p
		}
	}
	return token.NoPos
}

func isBackEdge(from, to *ssa.BasicBlock) bool { return to.Dominates(from) }

// ---------------------------------------------------------------- running

func (a *Act) run() {
	a.analyse()
	a.runBlocks(a.order, nil)
}

// runBlocks processes the given blocks (already in topological order).
// When dryLoop is non-nil only that loop's blocks are in the list and the header
// state has been prepared by the caller.
func (a *Act) runBlocks(blocks []*ssa.BasicBlock, dryLoop *loopInfo) {
	for _, b := range blocks {
		var st *State
		if a == a.root() && !a.dry {
			a.vc.curBlk = b.Index
		}
		if dryLoop != nil && b == dryLoop.header {
			st = a.in[b]
		} else {
			a.afterLoopAsserts(b)
			st = a.enterBlock(b)
			if st == nil {
				continue
			}
			if li := a.loops[b]; li != nil {
				st = a.enterLoop(li, st)
			}
		}
		a.in[b] = st
		a.cur = st.clone()
		a.curBlk = b
		if debugReachAll && !a.dry && a.mode == modeVerify {
			if o := a.vc.oblige("reach", fmt.Sprintf("block%d", b.Index), st.reach, "false", "block reachable: "+b.Comment, a.posOf(firstPos(b))); o != nil {
				o.ExpectSat = true
			}
		}
		for idx, in := range b.Instrs {
			a.curIdx = idx
			a.instr(in)
		}
		a.curIdx = len(b.Instrs)
		a.out[b] = a.cur
	}
}

// synLoopBlocks returns the blocks that belong to the source text of the loop statement of li
// (unlike the natural loop this includes the bodies of branches that end in break / return).
func (a *Act) synLoopBlocks(li *loopInfo) map[*ssa.BasicBlock]bool {
	if li.synBlocks != nil {
		return li.synBlocks
	}
	var stmts []ast.Node
	if syn := a.fn.Syntax(); syn != nil {
		var body ast.Node
		switch f := syn.(type) {
		case *ast.FuncDecl:
			body = f.Body
		case *ast.FuncLit:
			body = f.Body
		}
		if body != nil {
			ast.Inspect(body, func(n ast.Node) bool {
				switch n.(type) {
				case *ast.FuncLit:
					return false
				case *ast.ForStmt, *ast.RangeStmt:
					stmts = append(stmts, n)
				}
				return true
			})
		}
	}
	if len(stmts) != len(a.loops) || li.ord < 1 || li.ord > len(stmts) {
		a.vc.specErrs = append(a.vc.specErrs, fmt.Sprintf("after-loop %d: loop statements of the source (%d) do not match the loops of the SSA form (%d)", li.ord, len(stmts), len(a.loops)))
		li.synBlocks = map[*ssa.BasicBlock]bool{}
		return li.synBlocks
	}
	st := stmts[li.ord-1]
	m := map[*ssa.BasicBlock]bool{}
	for _, b := range a.fn.Blocks {
		if li.blocks[b] {
			m[b] = true
			continue
		}
		for _, in := range b.Instrs {
			if _, isPhi := in.(*ssa.Phi); isPhi {
				continue
			}
			if p := in.Pos(); p.IsValid() && st.Pos() <= p && p < st.End() {
				m[b] = true
				break
			}
		}
	}
	li.synBlocks = m
	return m
}

// afterLoopAsserts handles "assert after-loop N name: E": on every edge that leaves the source
// text of loop N (normal exit, break) for block b the assertion is proved in the state at the end
// of the leaving block, then assumed.
func (a *Act) afterLoopAsserts(b *ssa.BasicBlock) {
	if a.dry || a.contract == nil {
		return
	}
	for _, as := range a.contract.Asserts {
		if !strings.HasPrefix(as.Label, "after-loop ") {
			continue
		}
		for _, li := range a.loops {
			if as.Label != fmt.Sprintf("after-loop %d", li.ord) {
				continue
			}
			syn := a.synLoopBlocks(li)
			if syn[b] {
				continue
			}
			for _, p := range b.Preds {
				if !syn[p] || a.out[p] == nil {
					continue
				}
				c, ok := a.edge[[2]int{p.Index, b.Index}]
				if !ok {
					continue
				}
				st := &State{mem: a.out[p].mem, reach: c}
				env := a.baseEnv(st)
				env.vars = a.paramVars()
				env.loop = li
				pp := p
				saveBlk := a.curBlk
				a.curBlk = nil
				env.resolve = func(name string) (Val, bool) { return a.resolveDom(pp, name, st) }
				t := env.evalBool(as.Expr)
				a.curBlk = saveBlk
				a.vc.oblige("assert", fmt.Sprintf("loop%d:%s@exit%d", li.ord, as.Name, p.Index), c, t, as.Src, a.posOf(firstPos(b)))
				a.vc.assume(c, t)
			}
		}
	}
}

// enterBlock merges the forward predecessors of b and defines its phis.
func (a *Act) enterBlock(b *ssa.BasicBlock) *State {
	if len(b.Preds) == 0 {
		if b.Index == 0 {
			return a.entry.clone()
		}
		return nil // unreachable (e.g. recover block)
	}
	var conds []string
	var mems []*Mem
	var preds []int
	for i, p := range b.Preds {
		if isBackEdge(p, b) {
			continue
		}
		c, ok := a.edge[[2]int{p.Index, b.Index}]
		if !ok || a.out[p] == nil {
			continue // predecessor unreachable / not processed
		}
		conds = append(conds, c)
		mems = append(mems, a.out[p].mem)
		preds = append(preds, i)
	}
	if len(conds) == 0 {
		return nil
	}
	reach := a.vc.define(fmt.Sprintf("r_b%d", b.Index), SortBool, or(conds...))
	st := &State{mem: a.vc.mergeMem(conds, mems), reach: reach}
	// phis
	if a.loops[b] == nil {
		for _, in := range b.Instrs {
			phi, ok := in.(*ssa.Phi)
			if !ok {
				break
			}
			var vs []Val
			for _, pi := range preds {
				vs = append(vs, a.val(phi.Edges[pi]))
			}
			a.vals[phi] = a.mergeVals(conds, vs, phi.Type(), "phi_"+phi.Name())
		}
	}
	return st
}

func (a *Act) mergeVals(conds []string, vs []Val, t types.Type, hint string) Val {
	if len(vs) == 1 {
		return vs[0]
	}
	v0 := vs[0]
	if v0.Comp {
		out := Val{Comp: true, T: t}
		for i := range v0.Fields {
			var fs []Val
			for _, v := range vs {
				if i >= len(v.Fields) {
					a.unsup("merge of differently shaped composites")
					return v0
				}
				fs = append(fs, v.Fields[i])
			}
			out.Fields = append(out.Fields, a.mergeVals(conds, fs, v0.Fields[i].T, hint))
		}
		return out
	}
	same := true
	for _, v := range vs {
		if v.Loc != nil {
			if !(v0.Loc != nil && v.Loc.Base == v0.Loc.Base && v.Loc.Idx == v0.Loc.Idx && v.Loc.Root == v0.Loc.Root && fmt.Sprint(v.Loc.Path) == fmt.Sprint(v0.Loc.Path)) {
				a.unsup("phi of interior pointers")
			}
			return v0
		}
		if v.Term != v0.Term {
			same = false
		}
	}
	if same {
		return v0
	}
	t2 := vs[len(vs)-1].Term
	for i := len(vs) - 2; i >= 0; i-- {
		t2 = ite(conds[i], vs[i].Term, t2)
	}
	s := v0.Sort
	return Val{Sort: s, T: t, Term: a.vc.define(hint, s, t2)}
}

// freshVal declares an unconstrained value of Go type t (plus type invariant).
func (a *Act) freshVal(t types.Type, hint string, st *State) Val {
	if tup, ok := t.(*types.Tuple); ok {
		v := Val{Comp: true, T: t}
		for i := 0; i < tup.Len(); i++ {
			v.Fields = append(v.Fields, a.freshVal(tup.At(i).Type(), hint, st))
		}
		return v
	}
	if isStruct(t) {
		st2 := t.Underlying().(*types.Struct)
		v := Val{Comp: true, T: t}
		for i := 0; i < st2.NumFields(); i++ {
			v.Fields = append(v.Fields, a.freshVal(st2.Field(i).Type(), hint+"."+st2.Field(i).Name(), st))
		}
		return v
	}
	s, ok := a.vc.sortOf(t)
	if !ok {
		a.unsup("type %s", t)
		s = SortInt
	}
	v := Val{Sort: s, T: t, Term: a.vc.declare(hint, s)}
	guard := "true"
	alloc := ""
	if st != nil {
		guard = st.reach
		alloc = a.alloc(st)
	}
	a.vc.assume(guard, a.vc.typeInv(v, alloc))
	return v
}

func (a *Act) alloc(st *State) string { return a.vc.comp(st.mem, "alloc", SortInt) }

// ---------------------------------------------------------------- loops

func (a *Act) loopBlocksInOrder(li *loopInfo) []*ssa.BasicBlock {
	var out []*ssa.BasicBlock
	for _, b := range a.order {
		if li.blocks[b] {
			out = append(out, b)
		}
	}
	return out
}

func (a *Act) headerPhis(h *ssa.BasicBlock) []*ssa.Phi {
	var out []*ssa.Phi
	for _, in := range h.Instrs {
		if p, ok := in.(*ssa.Phi); ok {
			out = append(out, p)
		} else {
			break
		}
	}
	return out
}

// phiIncoming returns the phi operand values along forward (entry) edges, merged.
func (a *Act) phiEntryVals(li *loopInfo) (map[*ssa.Phi]Val, bool) {
	h := li.header
	var conds []string
	var idx []int
	for i, p := range h.Preds {
		if isBackEdge(p, h) {
			continue
		}
		c, ok := a.edge[[2]int{p.Index, h.Index}]
		if !ok {
			continue
		}
		conds = append(conds, c)
		idx = append(idx, i)
	}
	out := map[*ssa.Phi]Val{}
	for _, phi := range a.headerPhis(h) {
		var vs []Val
		for _, i := range idx {
			vs = append(vs, a.val(phi.Edges[i]))
		}
		out[phi] = a.mergeVals(conds, vs, phi.Type(), "phi0_"+phi.Name())
	}
	return out, len(idx) > 0
}

func (a *Act) enterLoop(li *loopInfo, st *State) *State {
	h := li.header
	if a.mode == modeSpec {
		a.unsup("loop in specification-level inlining")
	}
	entryPhis, _ := a.phiEntryVals(li)
	lname := fmt.Sprintf("loop%d", li.ord)
	a.vc.comment(fmt.Sprintf("---- %s header b%d", lname, h.Index))
	li.stEntry = st.clone()
	li.entryPhis = entryPhis
	// 1. dry run to find touched components
	li.allocLE = a.alloc(st)
	if li.touched == nil {
		li.touched = a.dryRun(li, st)
	}
	// 2. loop modifies items (evaluated in the loop-entry state)
	li.items = nil
	// Without an explicit loop modifies clause (or with the item "fresh") everything allocated since
	// the function was entered may change in the loop; with one, only the listed locations, this
	// function's own allocation sites and objects allocated during the loop may.
	li.threshold = a.root().allocE
	if li.spec != nil && li.spec.HasModifies {
		env := a.headerEnv(li, entryPhis, st)
		li.items = a.evalModItems(li.spec.Modifies, env)
		li.threshold = li.allocLE
		for _, it := range li.spec.Modifies {
			if it.Fresh {
				li.threshold = a.root().allocE
			}
		}
	} else if a.hasMods {
		li.items = append(li.items, a.funcMods...)
	}
	// objects allocated earlier by this very function may be written without declaration
	li.items = append(li.items, a.root().freshAllocs...)
	// 3. invariants hold on entry
	if li.spec != nil && !a.dry {
		env := a.headerEnv(li, entryPhis, st)
		for _, inv := range li.spec.Invs {
			t := env.evalBool(inv.Expr)
			a.vc.oblige("inv", fmt.Sprintf("%s:%s:entry", lname, inv.Name), st.reach, t, inv.Src, a.posOf(h.Instrs[0].Pos()))
		}
	}
	if li.spec == nil && !a.dry && a.mode == modeVerify {
		a.vc.note(fmt.Sprintf("%s of %s has no invariant (only havoc knowledge)", lname, a.vc.funcKey))
	}
	// 4. havoc
	nst := &State{mem: st.mem.clone(), reach: st.reach}
	for _, c := range li.touched {
		if c == "alloc" {
			na := a.vc.declare("alloc_"+lname, SortInt)
			a.vc.assume("true", app("<=", li.allocLE, na))
			nst.mem.m[c] = na
		}
	}
	if _, ok := nst.mem.m["alloc"]; !ok {
		nst.mem.m["alloc"] = li.allocLE
	}
	for _, c := range li.touched {
		s := a.vc.comps[c]
		if c == "alloc" {
			continue
		}
		cur := a.vc.comp(st.mem, c, s)
		// Frame of the loop: objects that existed when the function was entered and are not
		// listed in the modifies items keep their value; listed objects and objects allocated
		// by this function are arbitrary (the invariants have to say what is needed about them).
		all := false
		var refs []string
		seenRef := map[string]bool{}
		for _, e := range li.items {
			if e.matches(c) {
				if e.All {
					all = true
				} else if !seenRef[e.Ref] {
					seenRef[e.Ref] = true
					refs = append(refs, e.Ref)
				}
			}
		}
		if all || !strings.HasPrefix(string(s), "(Array Int ") || strings.HasPrefix(c, "ghost:chan.") {
			nst.mem.m[c] = a.vc.declareHeap("hv_"+c, s, nst.mem.m["alloc"])
			continue
		}
		hv := a.vc.declareHeap("hv_"+c, s, nst.mem.m["alloc"])
		conds := []string{app("<=", "r!f", li.threshold)}
		for _, r := range refs {
			conds = append(conds, not(app("=", "r!f", r)))
		}
		if elementwiseFrame && strings.HasPrefix(string(s), "(Array Int (Array ") {
			// nested heap: state the frame element by element (no equalities between rows,
			// which would make the solver reason by array extensionality)
			ks := "Int"
			if strings.HasPrefix(string(s), "(Array Int (Array Str") {
				ks = "Str"
			}
			a.vc.lines = append(a.vc.lines, fmt.Sprintf("(assert (forall ((r!f Int) (j!f %s)) (! (=> %s (= (select (select %s r!f) j!f) (select (select %s r!f) j!f))) :pattern ((select (select %s r!f) j!f)) :pattern ((select (select %s r!f) j!f)))))", ks, and(conds...), hv, cur, hv, cur))
		} else {
			a.vc.lines = append(a.vc.lines, fmt.Sprintf("(assert (forall ((r!f Int)) (! (=> %s (= (select %s r!f) (select %s r!f))) :pattern ((select %s r!f)) :pattern ((select %s r!f)))))", and(conds...), hv, cur, hv, cur))
		}
		nst.mem.m[c] = hv
	}
	// fresh phis
	li.phiHavoc = map[*ssa.Phi]Val{}
	for _, phi := range a.headerPhis(h) {
		v := a.freshVal(phi.Type(), "phi_"+phi.Name()+"_"+phi.Comment, nst)
		if ev, ok := entryPhis[phi]; ok && ev.Loc != nil {
			v = ev
		}
		a.vals[phi] = v
		li.phiHavoc[phi] = v
	}
	li.stHeader = nst.clone()
	// 5. assume invariants
	if li.spec != nil {
		env := a.headerEnv(li, li.phiHavoc, nst)
		for _, inv := range li.spec.Invs {
			t := env.evalBool(inv.Expr)
			a.vc.assume(nst.reach, t)
		}
		if li.spec.Decreases != nil {
			li.variant0 = a.vc.define("variant_"+lname, SortInt, env.evalInt(li.spec.Decreases))
		}
	}
	return nst
}

// dryRun encodes the loop body once with an arbitrary header state in order to
// discover which memory components the body may write. All emitted lines and
// obligations are discarded.
func (a *Act) dryRun(li *loopInfo, st *State) []string {
	nl, no := len(a.vc.lines), len(a.vc.obls)
	saveVals := map[ssa.Value]Val{}
	for k, v := range a.vals {
		saveVals[k] = v
	}
	saveIn, saveOut, saveEdge := a.in, a.out, a.edge
	a.in, a.out, a.edge = map[*ssa.BasicBlock]*State{}, map[*ssa.BasicBlock]*State{}, map[[2]int]string{}
	for k, v := range saveIn {
		a.in[k] = v
	}
	for k, v := range saveOut {
		a.out[k] = v
	}
	for k, v := range saveEdge {
		a.edge[k] = v
	}
	saveRet, saveDef, saveDry, saveCalls := a.returns, a.defers, a.dry, a.callCnt
	saveNames := map[string]int{}
	for k, v := range a.vc.oblNames {
		saveNames[k] = v
	}
	a.callCnt = map[string]int{}
	for k, v := range saveCalls {
		a.callCnt[k] = v
	}
	a.dry = true
	hst := &State{mem: st.mem.clone(), reach: st.reach}
	for _, phi := range a.headerPhis(li.header) {
		a.vals[phi] = a.freshVal(phi.Type(), "dry_"+phi.Name(), hst)
	}
	a.in[li.header] = hst
	saveItems, saveAlloc := li.items, li.allocLE
	a.runBlocks(a.loopBlocksInOrder(li), li)
	touched := map[string]bool{}
	for b := range li.blocks {
		o := a.out[b]
		if o == nil {
			continue
		}
		for k, v := range o.mem.m {
			if st.mem.m[k] != v {
				if _, had := st.mem.m[k]; had || v != a.vc.compInit(k, a.vc.comps[k]) {
					touched[k] = true
				}
			}
		}
	}
	// restore
	li.items, li.allocLE = saveItems, saveAlloc
	a.vc.lines = a.vc.lines[:nl]
	a.vc.obls = a.vc.obls[:no]
	a.vc.oblNames = saveNames
	a.vals = saveVals
	a.in, a.out, a.edge = saveIn, saveOut, saveEdge
	a.returns, a.defers, a.dry, a.callCnt = saveRet, saveDef, saveDry, saveCalls
	var out []string
	for k := range touched {
		out = append(out, k)
	}
	sort.Strings(out)
	if out == nil {
		out = []string{}
	}
	return out
}

// backEdge emits the invariant-preservation obligations for edge from -> header.
func (a *Act) backEdge(from *ssa.BasicBlock, li *loopInfo, cond string) {
	if a.dry || li.spec == nil {
		return
	}
	h := li.header
	lname := fmt.Sprintf("loop%d", li.ord)
	pi := -1
	for i, p := range h.Preds {
		if p == from {
			pi = i
		}
	}
	phis := map[*ssa.Phi]Val{}
	for _, phi := range a.headerPhis(h) {
		phis[phi] = a.val(phi.Edges[pi])
	}
	st := &State{mem: a.cur.mem, reach: cond}
	env := a.headerEnv(li, phis, st)
	// body-end assertions (lemma hints): proved, then available to the invariant steps
	if a.contract != nil && li.stHeader != nil {
		for _, as := range a.contract.Asserts {
			if as.Label != fmt.Sprintf("body-end %d", li.ord) {
				continue
			}
			env.prev = a.headerEnv(li, li.phiHavoc, li.stHeader)
			t := env.evalBool(as.Expr)
			a.vc.oblige("assert", fmt.Sprintf("%s:%s", lname, as.Name), cond, t, as.Src, a.posOf(h.Instrs[0].Pos()))
			a.vc.assume(cond, t)
		}
	}
	for _, inv := range li.spec.Invs {
		t := env.evalBool(inv.Expr)
		a.vc.oblige("inv", fmt.Sprintf("%s:%s:step", lname, inv.Name), cond, t, inv.Src, a.posOf(h.Instrs[0].Pos()))
	}
	if li.spec.Decreases != nil && li.variant0 != "" {
		v := env.evalInt(li.spec.Decreases)
		a.vc.oblige("dec", lname, cond, and(app("<", v, li.variant0), app("<=", "0", li.variant0)), li.spec.Decreases.String(), a.posOf(h.Instrs[0].Pos()))
	}
}

// ---------------------------------------------------------------- values

func (a *Act) val(v ssa.Value) Val {
	if x, ok := a.vals[v]; ok {
		return x
	}
	switch c := v.(type) {
	case *ssa.Const:
		return a.constVal(c)
	case *ssa.Global:
		// address of a package-level variable
		t := c.Type().(*types.Pointer).Elem()
		root := "G:" + c.Pkg.Pkg.Name() + "." + c.Name()
		return Val{T: c.Type(), Loc: &Loc{Kind: "global", Root: root, Owner: t, T: t}}
	case *ssa.Function:
		return Val{Sort: SortInt, T: c.Type(), Term: "1"}
	case *ssa.Builtin:
		return Val{Sort: SortInt, T: c.Type(), Term: "1"}
	}
	a.unsup("value %s (%T) used before definition", v.Name(), v)
	fv := a.freshVal(v.Type(), "undef_"+v.Name(), nil)
	a.vals[v] = fv
	return fv
}

func (a *Act) constVal(c *ssa.Const) Val {
	t := c.Type()
	if c.Value == nil {
		// zero value
		return a.zeroVal(t)
	}
	s, ok := a.vc.sortOf(t)
	if !ok {
		a.unsup("constant of type %s", t)
		return Val{Sort: SortInt, T: t, Term: "0"}
	}
	switch s {
	case SortBool:
		if c.Value.String() == "true" {
			return Val{Sort: s, T: t, Term: "true"}
		}
		return Val{Sort: s, T: t, Term: "false"}
	case SortInt:
		str := c.Value.ExactString()
		if strings.HasPrefix(str, "-") {
			str = "(- " + str[1:] + ")"
		}
		return Val{Sort: s, T: t, Term: str}
	case SortStr:
		return Val{Sort: s, T: t, Term: a.vc.strConst(constString(c))}
	case SortFlt:
		return Val{Sort: s, T: t, Term: a.vc.declare("fconst", SortFlt)}
	}
	a.unsup("constant %s", c)
	return Val{Sort: s, T: t, Term: "0"}
}

func constString(c *ssa.Const) string {
	s := c.Value.ExactString()
	if len(s) >= 2 && s[0] == '"' {
		var out string
		if _, err := fmt.Sscanf(s, "%q", &out); err == nil {
			return out
		}
	}
	return s
}

func (a *Act) zeroVal(t types.Type) Val {
	if isStruct(t) {
		st := t.Underlying().(*types.Struct)
		v := Val{Comp: true, T: t}
		for i := 0; i < st.NumFields(); i++ {
			v.Fields = append(v.Fields, a.zeroVal(st.Field(i).Type()))
		}
		return v
	}
	s, ok := a.vc.sortOf(t)
	if !ok {
		a.unsup("zero value of %s", t)
		return Val{Sort: SortInt, T: t, Term: "0"}
	}
	return Val{Sort: s, T: t, Term: zeroTerm(s, a.vc)}
}

func zeroTerm(s Sort, vc *VC) string {
	switch s {
	case SortInt:
		return "0"
	case SortBool:
		return "false"
	case SortSlice:
		return "(mk-slice 0 0 0 0)"
	case SortStr:
		return vc.strConst("")
	case SortFlt:
		return "0.0"
	}
	if strings.HasPrefix(string(s), "(Array Int ") {
		el := Sort(strings.TrimSuffix(strings.TrimPrefix(string(s), "(Array Int "), ")"))
		return fmt.Sprintf("((as const %s) %s)", s, zeroTerm(el, vc))
	}
	return "0"
}
