package solver

import "testing"

// C09: a cardinality constraint that is unit on two complementary literals (x1 + not x1 >= 2)
// is unsatisfiable; a fresh solver answers Unsat, and so must a live solver it is added to.
// Before the fix propagateUnits overwrote the binding of x1 and the solver answered Sat.
func TestFindingC09ContradictoryUnits(t *testing.T) {
	fresh := New(ParseCardConstrs([]CardConstr{{Lits: []int{1, -1}, AtLeast: 2}, {Lits: []int{1, 2}, AtLeast: 1}, {Lits: []int{-1, 2, 3}, AtLeast: 1}}))
	if st := fresh.Solve(); st != Unsat {
		t.Fatalf("fresh solver: expected Unsat, got %v", st)
	}
	s := New(ParseSliceNb([][]int{{1, 2}, {-1, 2, 3}}, 3))
	if st := s.Solve(); st != Sat {
		t.Fatalf("expected Sat, got %v", st)
	}
	s.AppendClause(NewCardClause([]Lit{IntToLit(1), IntToLit(-1)}, 2))
	if st := s.Solve(); st != Unsat {
		t.Fatalf("live solver after adding x1 + ~x1 >= 2: expected Unsat, got %v", st)
	}
	if st := s.Solve(); st != Unsat {
		t.Fatalf("later solve: expected Unsat, got %v", st)
	}
}
