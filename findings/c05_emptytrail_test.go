package solver

import "testing"

// Finding C05/decisionLits: a problem with no constraint at all has 2^n models; counting and
// enumerating them must not panic.
func TestFindingC05EmptyProblem(t *testing.T) {
	func() {
		defer func() {
			if r := recover(); r != nil {
				t.Fatalf("CountModels panicked on the empty problem over 3 variables: %v", r)
			}
		}()
		if n := New(ParseSliceNb([][]int{}, 3)).CountModels(); n != 8 {
			t.Fatalf("CountModels() = %d, want 8", n)
		}
	}()
	func() {
		defer func() {
			if r := recover(); r != nil {
				t.Fatalf("Enumerate panicked on the empty problem over 3 variables: %v", r)
			}
		}()
		if n := New(ParseSliceNb([][]int{}, 3)).Enumerate(nil, nil); n != 8 {
			t.Fatalf("Enumerate() = %d, want 8", n)
		}
	}()
}
