package solver

import (
	"strings"
	"testing"
)

// C13 / C01: a DIMACS text whose last clause is the empty clause and whose last line has no
// trailing newline ("...\n0<EOF>") is unsatisfiable. Before the fix readInt reported the final 0
// together with io.EOF and ParseCNF took it for trailing white space: the clause was dropped.
func TestFindingC13EmptyClauseAtEOF(t *testing.T) {
	for _, txt := range []string{"p cnf 2 2\n1 2 0\n0", "p cnf 2 2\n1 2 0\n 0", "p cnf 1 1\n0"} {
		pb, err := ParseCNF(strings.NewReader(txt))
		if err != nil {
			t.Fatalf("%q: unexpected error %v", txt, err)
		}
		if st := New(pb).Solve(); st != Unsat {
			t.Errorf("%q: expected Unsat (the text contains the empty clause), got %v", txt, st)
		}
	}
	// the same texts with a final newline were already right
	pb, _ := ParseCNF(strings.NewReader("p cnf 2 2\n1 2 0\n0\n"))
	if st := New(pb).Solve(); st != Unsat {
		t.Errorf("expected Unsat, got %v", st)
	}
	// a last clause that is terminated but not followed by a newline keeps all its literals
	pb, _ = ParseCNF(strings.NewReader("p cnf 2 3\n1 2 0\n-1 0\n-2 0"))
	if st := New(pb).Solve(); st != Unsat {
		t.Errorf("expected Unsat, got %v", st)
	}
}
