package maxsat

import "testing"

// Finding C04/New: a soft cardinality constraint (implicit unit coefficients, degree > 1) must be
// fully relaxable: the hard part below is satisfiable, so the answer is a model of cost 1.
func TestFindingC04SoftCardinality(t *testing.T) {
	pb := New(
		HardClause(Not("a")), HardClause(Not("b")), HardClause(Not("c")),
		Constr{Lits: []Lit{Var("a"), Var("b"), Var("c")}, AtLeast: 2, Weight: 1},
	)
	model, cost := pb.Solve()
	if model == nil || cost != 1 {
		t.Fatalf("got model=%v cost=%d, want a model of cost 1", model, cost)
	}
	if model["a"] || model["b"] || model["c"] {
		t.Fatalf("model %v violates a hard clause", model)
	}
}
