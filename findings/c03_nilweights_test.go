package solver

import "testing"

// Finding C03/Optimal+Minimize: SetCostFunc documents that weights may be nil ("all lits have the
// same weight"); optimising such a problem must return the true minimum, not panic.
func TestFindingC03NilCostWeights(t *testing.T) {
	mk := func() *Solver {
		pb := ParseSliceNb([][]int{{1, 2}, {2, 3}}, 3)
		pb.SetCostFunc([]Lit{IntToLit(1), IntToLit(2), IntToLit(3)}, nil)
		return New(pb)
	}
	func() {
		defer func() {
			if r := recover(); r != nil {
				t.Fatalf("Minimize panicked with nil cost weights: %v", r)
			}
		}()
		if c := mk().Minimize(); c != 1 {
			t.Fatalf("Minimize() = %d, want 1", c)
		}
	}()
	func() {
		defer func() {
			if r := recover(); r != nil {
				t.Fatalf("Optimal panicked with nil cost weights: %v", r)
			}
		}()
		if r := mk().Optimal(nil, nil); r.Status != Sat || r.Weight != 1 {
			t.Fatalf("Optimal() = %v, want Sat with weight 1", r)
		}
	}()
}
