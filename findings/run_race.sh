#!/bin/sh
# usage: run.sh <test-file> <pkgdir>  -- injects the test into the package with -overlay (nothing is written to /repo)
F=$(readlink -f "$1"); PKG=$2
export GOFLAGS=-mod=mod GOPROXY=off GOSUMDB=off GOTOOLCHAIN=local
T=$(mktemp -d /tmp/ov.XXXXXX)
printf '{"Replace":{"%s/%s/zz_finding_test.go":"%s"}}' "${VERIF_REPO:-/repo}" "$PKG" "$F" > $T/ov.json
( cd ${VERIF_REPO:-/repo}/$PKG && go test -race -overlay $T/ov.json -vet=off -count=1 -timeout 60s -run 'TestFinding' . ); rc=$?
rm -rf $T; exit $rc
