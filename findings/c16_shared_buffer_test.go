package solver

import (
	"math/rand"
	"sync"
	"testing"
)

func rnd3sat(seed int64, n, m int) [][]int {
	r := rand.New(rand.NewSource(seed))
	var cls [][]int
	for i := 0; i < m; i++ {
		var c []int
		for j := 0; j < 3; j++ {
			v := 1 + r.Intn(n)
			if r.Intn(2) == 0 {
				v = -v
			}
			c = append(c, v)
		}
		cls = append(cls, c)
	}
	return cls
}

// C16: two solvers that share nothing, used from two goroutines. Before the fix learnClause built every
// learned clause in one package-level buffer (bufLits): a data race (run with -race: findings/run_race.sh)
// through which concurrent solvers could corrupt each other's learned clauses.
func TestFindingC16SharedLearnBuffer(t *testing.T) {
	const N = 8
	want := make([]Status, N)
	for i := 0; i < N; i++ {
		want[i] = New(ParseSliceNb(rnd3sat(int64(i), 60, 256), 60)).Solve()
	}
	var wg sync.WaitGroup
	got := make([]Status, N)
	bad := make([]bool, N)
	for i := 0; i < N; i++ {
		wg.Add(1)
		go func(i int) {
			defer wg.Done()
			cls := rnd3sat(int64(i), 60, 256)
			s := New(ParseSliceNb(rnd3sat(int64(i), 60, 256), 60))
			got[i] = s.Solve()
			if got[i] == Sat {
				m := s.Model()
				for _, c := range cls {
					ok := false
					for _, l := range c {
						if (l > 0) == m[abs32(l)-1] {
							ok = true
						}
					}
					if !ok {
						bad[i] = true
					}
				}
			}
		}(i)
	}
	wg.Wait()
	for i := 0; i < N; i++ {
		if got[i] != want[i] || bad[i] {
			t.Errorf("instance %d: alone %v, concurrently %v (model invalid: %v)", i, want[i], got[i], bad[i])
		}
	}
}

func abs32(x int) int {
	if x < 0 {
		return -x
	}
	return x
}
