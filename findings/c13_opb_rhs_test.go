package solver

import (
	"strings"
	"testing"
)

// Finding C13/parsePBConstrLine: a well-formed OPB constraint whose right-hand side is <= 0
// (trivially true) must be accepted; parsing must not panic.
func TestFindingC13TrivialOPB(t *testing.T) {
	for _, txt := range []string{
		"* #variable= 2 #constraint= 1\n+1 x1 +1 x2 >= 0 ;\n",
		"* #variable= 2 #constraint= 1\n+2 x1 +1 x2 >= -1 ;\n",
		"* #variable= 2 #constraint= 2\n-1 x1 -1 x2 >= -3 ;\n+1 x1 >= 1 ;\n",
	} {
		func() {
			defer func() {
				if r := recover(); r != nil {
					t.Fatalf("ParseOPB panicked on %q: %v", txt, r)
				}
			}()
			pb, err := ParseOPB(strings.NewReader(txt))
			if err != nil {
				t.Fatalf("ParseOPB(%q): %v", txt, err)
			}
			if st := New(pb).Solve(); st != Sat {
				t.Fatalf("%q: got %v, want Sat", txt, st)
			}
		}()
	}
}
