package solver

import "testing"

// Finding C15/removeBinaries: DetectAtMostOne must not change the set of models.
// Input: at-most-one over x1..x3 in pairwise encoding, plus three more clauses.
func TestFindingC15RemoveBinaries(t *testing.T) {
	cls := [][]int{{-1, -2}, {-1, -3}, {-2, -3}, {1, 2, 3}, {-1, 4}, {-4, 2, 3}}
	count := func(detect bool) int {
		pb := ParseSlice(cls)
		if detect {
			pb.DetectAtMostOne()
		}
		n := 0
		for m := 0; m < 16; m++ {
			ok := true
			for _, c := range pb.Clauses {
				sum := 0
				for i := 0; i < c.Len(); i++ {
					l := c.Get(i)
					if (m>>uint(l.Var())&1 == 1) == l.IsPositive() {
						sum += c.Weight(i)
					}
				}
				if sum < c.Cardinality() {
					ok = false
				}
			}
			if ok {
				n++
			}
		}
		return n
	}
	if a, b := count(false), count(true); a != b {
		t.Fatalf("model count changed by DetectAtMostOne: %d before, %d after", a, b)
	}
}
