package explain

import (
	"reflect"
	"strings"
	"testing"
)

// Finding C07/UnsatSubset: on a problem refuted by unit propagation alone UnsatSubset handed back
// a shallow copy sharing the caller's clause list; MUSDeletion / MUS then wrote the relaxed
// clauses (one extra literal each) into the caller's problem.
func TestFindingC07CallerClausesUnchanged(t *testing.T) {
	pb, err := ParseCNF(strings.NewReader("p cnf 3 3\n1 0\n-1 0\n2 3 0\n"))
	if err != nil {
		t.Fatal(err)
	}
	want := [][]int{{1}, {-1}, {2, 3}}
	if _, err := pb.MUSDeletion(); err != nil {
		t.Fatal(err)
	}
	if !reflect.DeepEqual(pb.Clauses, want) {
		t.Fatalf("caller's clauses after MUSDeletion: %v, want %v", pb.Clauses, want)
	}
}
