package solver

import "testing"

// Finding C10/Assume (a): assumptions that contradict each other make the round Unsat.
func TestFindingC10ContradictoryAssumptions(t *testing.T) {
	s := New(ParseSliceNb([][]int{{1, 2}}, 2))
	s.Assume([]Lit{IntToLit(1), IntToLit(-1)})
	if st := s.Solve(); st != Unsat {
		t.Fatalf("Assume([x1, ~x1]); Solve() = %v, want Unsat", st)
	}
	s.Assume(nil)
	if st := s.Solve(); st != Sat {
		t.Fatalf("next round without assumptions: Solve() = %v, want Sat", st)
	}
}

// Finding C10/Assume (b): the problem's own unit clauses stay in force under assumptions.
func TestFindingC10UnitsKept(t *testing.T) {
	s := New(ParseSliceNb([][]int{{1}, {2, 3}}, 3))
	s.Assume([]Lit{IntToLit(-1)})
	if st := s.Solve(); st != Unsat {
		t.Fatalf("problem {x1},{x2 x3} under assumption ~x1: Solve() = %v, want Unsat", st)
	}
}
