package solver

import "testing"

// C03 / C09: a cost function with a zero coefficient. When the strengthening constraint added by
// Minimize / Optimal became unit, AppendClause forced *every* remaining literal, including the one
// with weight 0, and the search lost the models in which that literal is false.
func TestFindingC03ZeroWeightCost(t *testing.T) {
	for _, inst := range []struct {
		cls [][]int
		li  []int
		ws  []int
		n   int
	}{
		{[][]int{{-4, -3}, {-2, 3}, {-2, -3}, {-2, 1}, {-5, 2}}, []int{-2, -3, -4}, []int{2, 0, 1}, 6},
		{[][]int{{4, 2, -3}, {-2, -4, 2}, {4, 1, -2}, {1, -2}, {-1, 4, -1}, {4, -3}, {-1, -3, -4}, {-2, -2, -1}, {4, -1}}, []int{-2, -3, 4}, []int{1, 0, 1}, 4},
	} {
		cls, li, ws, n := inst.cls, inst.li, inst.ws, inst.n
		best := -1
		for a := 0; a < 1<<n; a++ {
			val := func(l int) bool {
				if l < 0 {
					return (a>>(-l-1))&1 == 0
				}
				return (a>>(l-1))&1 == 1
			}
			ok := true
			for _, c := range cls {
				sat := false
				for _, l := range c {
					sat = sat || val(l)
				}
				ok = ok && sat
			}
			if !ok {
				continue
			}
			cost := 0
			for i, l := range li {
				if val(l) {
					cost += ws[i]
				}
			}
			if best < 0 || cost < best {
				best = cost
			}
		}
		mk := func() *Solver {
			cp := make([][]int, len(cls))
			for i := range cls {
				cp[i] = append([]int{}, cls[i]...)
			}
			pb := ParseSliceNb(cp, n)
			lits := make([]Lit, len(li))
			for i, l := range li {
				lits[i] = IntToLit(int32(l))
			}
			pb.SetCostFunc(lits, append([]int{}, ws...))
			return New(pb)
		}
		if got := mk().Minimize(); got != best {
			t.Errorf("clauses %v cost %v weights %v: Minimize = %d, true optimum %d", cls, li, ws, got, best)
		}
		if r := mk().Optimal(nil, nil); r.Weight != best {
			t.Errorf("clauses %v cost %v weights %v: Optimal = %d, true optimum %d", cls, li, ws, r.Weight, best)
		}
	}
	// the same defect through the public incremental interface (C09): 0*~x1 + 1*x2 >= 1 is just x2
	s := New(ParseSlice([][]int{{1, 3}, {1, -3}, {2, 3, 1}}))
	s.AppendClause(NewPBClause([]Lit{IntToLit(-1), IntToLit(2)}, []int{0, 1}, 1))
	if st := s.Solve(); st != Sat {
		t.Errorf("x1 is forced, x2 can be true: expected Sat, got %v", st)
	}
}
