package solver

import "testing"

// Finding C02/simplifyCard: x1 >= 1, x1 + x2 + x3 >= 2, ~x2 >= 1, ~x3 >= 1 has no model
// (x1 alone cannot reach degree 2). Before the fix the parse-time scan counted the true
// literal x1 twice and dropped the constraint as satisfied.
func TestFindingC02SimplifyCardCountsOnce(t *testing.T) {
	pb := ParseCardConstrs([]CardConstr{
		{Lits: []int{1}, AtLeast: 1},
		{Lits: []int{1, 2, 3}, AtLeast: 2},
		{Lits: []int{-2}, AtLeast: 1},
		{Lits: []int{-3}, AtLeast: 1},
	})
	if st := New(pb).Solve(); st != Unsat {
		t.Fatalf("Solve() = %v, want Unsat", st)
	}
}
