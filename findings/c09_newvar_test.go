package solver

import "testing"

// Finding C09/newVar: adding constraints over variables never seen before must behave like a
// fresh solver on the conjunction. Here the conjunction is unsatisfiable and refuting it needs
// conflict analysis over the new variables.
func TestFindingC09NewVar(t *testing.T) {
	s := New(ParseSliceNb([][]int{{1, 2}}, 2))
	if s.Solve() != Sat {
		t.Fatalf("base problem should be Sat")
	}
	for _, c := range [][]int{{3, 4}, {3, -4}, {-3, 4}, {-3, -4}} {
		lits := make([]Lit, len(c))
		for i, x := range c {
			lits[i] = IntToLit(int32(x))
		}
		s.AppendClause(NewClause(lits))
	}
	defer func() {
		if r := recover(); r != nil {
			t.Fatalf("Solve panicked after AppendClause over new variables: %v", r)
		}
	}()
	if st := s.Solve(); st != Unsat {
		t.Fatalf("got %v, want Unsat", st)
	}
}
