#!/bin/sh
# usage: check.sh <property> <quick|thorough>
# Rebuilds the verifier if needed and verifies the property's functions from /repo's working tree.
cd "$(dirname "$0")"
export GOFLAGS=-mod=mod GOPROXY=off GOSUMDB=off GOTOOLCHAIN=local
[ -x bin/govc ] || ./setup.sh >&2 || exit 2
exec bin/govc check -property "$1" -tier "${2:-quick}"
