#!/bin/sh
cd /verif
for f in claims/*.json; do p=$(basename $f .json); bin/govc check -property $p -claim 2>&1 | grep -E "^claims|not claimed" ; done
