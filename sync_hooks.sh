#!/bin/sh
# Installs the canonical contract files into /repo (build tag verif, comment-only) as a hook commit.
set -e
cd /verif/contracts
for f in $(find . -name 'zz_contracts_verif.go'); do
  mkdir -p /repo/$(dirname $f); cp $f /repo/$f; git -C /repo add $f
done
git -C /repo commit -qm "verif hook: contract comment files (build tag verif)" || true
git -C /repo log --oneline | head -3
