#!/bin/sh
# runs every claimed check (quick tier) on /repo and rewrites the evidence files
cd /verif
for f in claims/*.json; do p=$(basename $f .json); ./check.sh $p ${1:-quick} | grep -E "^VIOLATION|^KNOWN|quick:|thorough:"; done
